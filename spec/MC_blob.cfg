SPECIFICATION BSpec
CONSTANTS
  Keys = {1, 2}
  Vals = {1, 2}
  WeakKeys = {}
  OnceKeys = {}
  FilterRules <- NoRules
  BigVals = {2}
  MaxSeq = 5
  MaxSealed = 1
  MaxTables = 3
  MaxSnaps = 1
  MaxHist = 3
  DestLevels = {1, 6}
  Ops = {"write", "rotate", "flush", "merge", "major", "droprange", "reopen", "snap"}
  BlobPerFile = TRUE
  StaleNum = 1
  StaleDen = 2
  ReopenAboveGc = TRUE
VIEW ViewBlob
CONSTRAINT Bounded
INVARIANTS GcExactM NoDanglingM IdsFresh ReadsRefine StructureSound
CHECK_DEADLOCK FALSE
