SPECIFICATION Spec
ACTION_CONSTRAINT PrintImage
INVARIANT PointerIsBacked
CHECK_DEADLOCK FALSE
