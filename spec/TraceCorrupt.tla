---------------------------- MODULE TraceCorrupt ----------------------------
(***************************************************************************)
(* C10: judgement of the byte-level fault enumeration (`harness corrupt`). *)
(* Every record summarises the trials of one fault kind inside one         *)
(* integrity unit of one persisted file:                                   *)
(*    file, unit, fault \in {flip01, flip80, flipff, truncate},            *)
(*    trials, same, err, panic, diff, diffs                                *)
(* Allowed outcomes of a damaged byte for every (unit, fault, read path):  *)
(* the read set still equals the undamaged answers (same), or the damage   *)
(* is reported (err; a panic or abort reports it too - it serves nothing). *)
(* `diff` - a different value, a different set of keys, different          *)
(* visibility, or a reader that spins for ever (CPU limit of the trial) -  *)
(* is never allowed.                                                       *)
(***************************************************************************)
EXTENDS Naturals, Sequences, TLC, Json, IOUtils

Rec == ndJsonDeserialize(IOEnv.TRACE)
VARIABLE l

Faults == {"flip01", "flip80", "flipff", "truncate"}
Say(kind, what, i, d) == PrintT(ToJson(<<kind, what, i, d>>))

Allowed(r) ==
    /\ r.fault \in Faults
    /\ r.trials = r.same + r.err + r.panic + r.diff
    /\ r.diff = 0

RecOk(i) ==
    LET r == Rec[i] IN
    Allowed(r) \/ Say("VIOL", "CORRUPT", i, [file |-> r.file, unit |-> r.unit, fault |-> r.fault,
                                                beh |-> r.beh, diffs |-> r.diffs])

Init == l = 0
Next == l < Len(Rec) /\ l' = l + 1 /\ RecOk(l + 1)
Spec == Init /\ [][Next]_l
Accepted == TLCGet("stats").diameter - 1 = Len(Rec) \/ Say("REJECT", "lines", TLCGet("stats").diameter - 1, Len(Rec))
=============================================================================
