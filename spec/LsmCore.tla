------------------------------ MODULE LsmCore ------------------------------
(***************************************************************************)
(* Common definitions of the lsm-tree specification: entries, the internal *)
(* key order, the merge stream used by flush and compaction (a literal     *)
(* transcription of CompactionStream::next, src/compaction/stream.rs), the *)
(* run/level transformations of src/version/{mod,optimize,run}.rs and the  *)
(* read paths (point read: src/tree/mod.rs + src/table/mod.rs; scans:      *)
(* src/range.rs + src/mvcc_stream.rs).                                     *)
(*                                                                         *)
(* Everything here is a pure operator; the state machines (LsmTree, the    *)
(* trace specifications) are built from them.                              *)
(***************************************************************************)
EXTENDS Naturals, Sequences, FiniteSets, TLC, SequencesExt, FiniteSetsExt

Top      == 1000000       \* stands for SeqNo::MAX in reads
NoVal    == 0             \* value carried by tombstones
NLevels  == 7
LastLevel == NLevels - 1
None     == [t |-> "none"]    \* "no entry" result of internal reads

(* An entry is a record [k, s, t, v]: user key, seqno, type, value.        *)
(* t \in {"V","T","W","I"} = Value, Tombstone, WeakTombstone, Indirection. *)
(* For "I" entries v is the (model) value the pointer resolves to and the  *)
(* additional field p is the pointer [bf, slot] (LsmBlob).                 *)
IsTomb(e)    == e.t \in {"T", "W"}
Before(a, b) == a.k < b.k \/ (a.k = b.k /\ a.s > b.s)
SortEntries(S) == SetToSortSeq(S, Before)

SeqMaxOf(S)  == IF S = {} THEN -1 ELSE Max(S)

-----------------------------------------------------------------------------
(* CompactionStream::next.                                                 *)
(*   q     merged input (internal key order)                               *)
(*   w     gc_seqno_threshold                                              *)
(*   evict evict_tombstones                                                *)
(*   f     filter: NoFilter or [on |-> TRUE, fn |-> function from <<k, v>> *)
(*         to a verdict record [kind |-> "keep"] / [kind |-> "drop"] /     *)
(*         [kind |-> "replace", t |-> .., v |-> ..]]                       *)
(* Result: [out, dropped, shown]; dropped = arguments of the               *)
(* dropped-callback in call order, shown = items handed to the filter.     *)
(***************************************************************************)
NoFilter == [on |-> FALSE]
VerdictOf(f, e) ==
    IF ~f.on THEN [kind |-> "keep"]
    ELSE IF <<e.k, e.v>> \in DOMAIN f.fn THEN f.fn[<<e.k, e.v>>] ELSE [kind |-> "keep"]

\* compaction filter as a rule table (harness/src/filter.rs): rules is a sequence of
\* [k, vp, act, to]; a rule applies to key k when vp = 2 or value % 2 = vp; first match wins.
\* A replacement that reaches the separation threshold is written to a blob file ("I").
RuleVerdict(rules, big, k, v) ==
    LET idx == {i \in 1..Len(rules) : rules[i].k = k /\ (rules[i].vp = 2 \/ v % 2 = rules[i].vp)}
    IN IF idx = {} THEN [kind |-> "keep"]
       ELSE LET r == rules[Min(idx)] IN
            CASE r.act = "remove"     -> [kind |-> "replace", t |-> "T", v |-> NoVal]
              [] r.act = "removeweak" -> [kind |-> "replace", t |-> "W", v |-> NoVal]
              [] r.act = "destroy"    -> [kind |-> "drop"]
              [] r.act = "replace"    -> [kind |-> "replace",
                                          t |-> IF (v + r.to) \in big THEN "I" ELSE "V", v |-> v + r.to]
              [] OTHER -> [kind |-> "keep"]

FilterFn(rules, big, input) ==
    IF rules = <<>> THEN NoFilter
    ELSE [on |-> TRUE, fn |-> [p \in {<<input[i].k, input[i].v>> : i \in {j \in 1..Len(input) : ~IsTomb(input[j])}}
            |-> RuleVerdict(rules, big, p[1], p[2])]]

SameKeyPrefixLen(r, k) ==
    LET idx == {i \in 1..Len(r) : r[i].k # k}
    IN IF idx = {} THEN Len(r) ELSE Min(idx) - 1

RECURSIVE CSRec(_, _, _, _, _)
CSRec(q, w, evict, f, acc) ==
    IF q = <<>> THEN acc ELSE
    LET h0   == Head(q)
        r    == Tail(q)
        vd   == IF IsTomb(h0) THEN [kind |-> "keep"] ELSE VerdictOf(f, h0)
        acc1 == IF IsTomb(h0) \/ ~f.on THEN acc
                ELSE [acc EXCEPT !.shown = Append(@, h0)]
    IN
    IF vd.kind = "drop"
    THEN CSRec(r, w, evict, f, [acc1 EXCEPT !.dropped = Append(@, h0)])
    ELSE
    LET h    == IF vd.kind = "replace" THEN [h0 EXCEPT !.t = vd.t, !.v = vd.v] ELSE h0
        acc2 == IF vd.kind = "replace"
                THEN [acc1 EXCEPT !.dropped = Append(@, h0)] ELSE acc1
        emit(a) == [a EXCEPT !.out = Append(@, h)]
    IN
    IF r = <<>>
    THEN IF IsTomb(h) /\ evict THEN acc2 ELSE emit(acc2)
    ELSE
    LET p == Head(r) IN
    IF p.k > h.k
    THEN IF IsTomb(h) /\ evict
         THEN CSRec(r, w, evict, f, acc2)
         ELSE CSRec(r, w, evict, f, emit(acc2))
    ELSE IF p.s < w
    THEN LET n    == SameKeyPrefixLen(r, h.k)
             tail == SubSeq(r, 1, n)
             rest == SubSeq(r, n + 1, Len(r))
             acc3 == [acc2 EXCEPT !.dropped = @ \o tail]
         IN IF h.t = "T" /\ evict
            THEN CSRec(rest, w, evict, f, acc3)
            ELSE IF p.t = "V" /\ h.t = "W"
            \* the weak tombstone cancels out the one insert below it, nothing else
            THEN CSRec(Tail(r), w, evict, f, [acc2 EXCEPT !.dropped = Append(@, p)])
            ELSE CSRec(rest, w, evict, f, emit(acc3))
    ELSE CSRec(r, w, evict, f, emit(acc2))

CompactionStream(q, w, evict, f) ==
    CSRec(q, w, evict, f, [out |-> <<>>, dropped |-> <<>>, shown |-> <<>>])

-----------------------------------------------------------------------------
(* Tables.  A table is [e |-> Seq(Entry) (stored seqnos), g |-> global     *)
(* seqno].  Effective seqno of an entry = stored seqno + g.                *)
(***************************************************************************)
TMinKey(tb) == tb.e[1].k
TMaxKey(tb) == tb.e[Len(tb.e)].k
TMinSeq(tb) == Min({tb.e[i].s : i \in 1..Len(tb.e)})
TMaxSeq(tb) == Max({tb.e[i].s : i \in 1..Len(tb.e)})
TKeys(tb)   == {tb.e[i].k : i \in 1..Len(tb.e)}
\* entries with effective seqnos
TEff(tb)    == {[tb.e[i] EXCEPT !.s = @ + tb.g] : i \in 1..Len(tb.e)}
TEffSeq(tb) == [i \in 1..Len(tb.e) |-> [tb.e[i] EXCEPT !.s = @ + tb.g]]

KrOverlap(a, b) == TMaxKey(a) >= TMinKey(b) /\ TMinKey(a) <= TMaxKey(b)

-----------------------------------------------------------------------------
(* optimize_runs (src/version/optimize.rs).  runs: Seq(Seq(id)); T: id ->  *)
(* table.                                                                  *)
(***************************************************************************)
\* Run::push = push + stable sort by min key
RunPush(run, t, T) ==
    LET n == Cardinality({i \in 1..Len(run) : TMinKey(T[run[i]]) <= TMinKey(T[t])})
    IN SubSeq(run, 1, n) \o <<t>> \o SubSeq(run, n + 1, Len(run))

RECURSIVE OptFold(_, _, _)
OptFold(flat, acc, T) ==
    IF flat = <<>> THEN acc ELSE
    LET t   == Head(flat)
        ov  == {i \in 1..Len(acc) : \E j \in 1..Len(acc[i]) : KrOverlap(T[t], T[acc[i][j]])}
        tgt == IF ov = {} THEN 1 ELSE Max(ov) + 1
    IN IF tgt <= Len(acc)
       THEN OptFold(Tail(flat), [acc EXCEPT ![tgt] = RunPush(@, t, T)], T)
       ELSE OptFold(Tail(flat), Append(acc, <<t>>), T)

OptimizeRuns(runs, T) ==
    IF Len(runs) <= 1 THEN runs ELSE OptFold(FlattenSeq(runs), <<>>, T)

\* Level structure lv: sequence of NLevels levels, each Seq(Seq(id)); level L is lv[L+1].
EmptyLevels == [i \in 1..NLevels |-> <<>>]

RunsWithout(runs, ids) ==
    SelectSeq([j \in 1..Len(runs) |-> SelectSeq(runs[j], LAMBDA t : t \notin ids)],
              LAMBDA run : run # <<>>)

AllIds(lv) == UNION {UNION {Range(lv[i][j]) : j \in 1..Len(lv[i])} : i \in 1..NLevels}
\* tables in iteration order (levels, runs, tables) = read order
FlatIds(lv) == FlattenSeq([i \in 1..NLevels |-> FlattenSeq(lv[i])])
LevelOf(lv, t) == (CHOOSE i \in 1..NLevels : \E j \in 1..Len(lv[i]) : t \in Range(lv[i][j])) - 1

\* Version::with_new_l0_run
WithNewL0Run(lv, run, T) ==
    [lv EXCEPT ![1] = OptimizeRuns((IF run = <<>> THEN <<>> ELSE <<run>>) \o lv[1], T)]

\* Version::with_merge (level structure part)
WithMerge(lv, old, new, dest, T) ==
    [i \in 1..NLevels |->
        LET kept == RunsWithout(lv[i], old)
            runs == IF i = dest + 1 /\ new # <<>> THEN <<new>> \o kept ELSE kept
        IN OptimizeRuns(runs, T)]

\* Version::with_moved
WithMoved(lv, ids, dest, T) ==
    LET affected == SelectSeq(FlatIds(lv), LAMBDA t : t \in ids) IN
    [i \in 1..NLevels |->
        LET kept == RunsWithout(lv[i], ids)
            runs == IF i = dest + 1 /\ affected # <<>> THEN <<affected>> \o kept ELSE kept
        IN OptimizeRuns(runs, T)]

\* Version::with_dropped (level structure part)
WithDropped(lv, ids, T) ==
    [i \in 1..NLevels |-> OptimizeRuns(RunsWithout(lv[i], ids), T)]

-----------------------------------------------------------------------------
(* Point reads.                                                            *)
(***************************************************************************)
\* newest entry of key k with seqno < S in a set of entries, or None
NewestIn(E, k, S) ==
    LET c == {e \in E : e.k = k /\ e.s < S}
    IN IF c = {} THEN None ELSE CHOOSE e \in c : \A o \in c : o.s <= e.s

\* Memtable::get
MemGet(E, k, S) == IF S = 0 THEN None ELSE NewestIn(E, k, S)

\* Run::get_for_key: partition_point(max < k), then min <= k
RunGetForKey(run, k, T) ==
    LET idx == Cardinality({i \in 1..Len(run) : TMaxKey(T[run[i]]) < k}) + 1
    IN IF idx <= Len(run) /\ TMinKey(T[run[idx]]) <= k THEN run[idx] ELSE -1

\* Table::get: translate S by the global seqno (saturating), early-out on min seqno
TableGet(tb, k, S) ==
    LET S2 == IF S > tb.g THEN S - tb.g ELSE 0
    IN IF TMinSeq(tb) >= S2 THEN None
       ELSE LET r == NewestIn(Range(tb.e), k, S2)
            IN IF r = None THEN None ELSE [r EXCEPT !.s = @ + tb.g]

\* first hit in a sequence of candidate results
RECURSIVE FirstHit(_)
FirstHit(s) == IF s = <<>> THEN None
               ELSE IF Head(s) # None THEN Head(s) ELSE FirstHit(Tail(s))

\* Tree::get_internal_entry_from_version.
\*   sv: [act, sealed, lv]; M: memtable id -> set of entries; T: id -> table
InternalGet(sv, M, T, k, S) ==
    LET a == MemGet(M[sv.act], k, S)
    IN IF a # None THEN a ELSE
    LET sl == FirstHit([i \in 1..Len(sv.sealed) |->
                          MemGet(M[sv.sealed[Len(sv.sealed) + 1 - i]], k, S)])
    IN IF sl # None THEN sl ELSE
    LET runs == FlattenSeq(sv.lv)
    IN FirstHit([j \in 1..Len(runs) |->
                   LET t == RunGetForKey(runs[j], k, T)
                   IN IF t = -1 THEN None ELSE TableGet(T[t], k, S)])

\* what `get` returns: value or NoVal (absent)
UserGet(sv, M, T, k, S) ==
    LET r == InternalGet(sv, M, T, k, S)
    IN IF r = None \/ IsTomb(r) THEN NoVal ELSE r.v

-----------------------------------------------------------------------------
(* Scans (set-theoretic meaning of Merger + MvccStream + tombstone filter  *)
(* over all sources of a super version).                                   *)
(***************************************************************************)
\* every entry of every source, effective seqnos
SvEntries(sv, M, T) ==
    M[sv.act] \cup UNION {M[sv.sealed[i]] : i \in 1..Len(sv.sealed)}
              \cup UNION {TEff(T[t]) : t \in AllIds(sv.lv)}

\* bounds: [lo |-> <<kind, x>>, hi |-> <<kind, x>>], kind \in {"U","I","E"}; x is a
\* doubled key: 2k stands for key k, 2k+1 for a byte string strictly between k and k+1
InBounds(k, b) ==
    /\ CASE b.lo[1] = "U" -> TRUE [] b.lo[1] = "I" -> 2*k >= b.lo[2] [] b.lo[1] = "E" -> 2*k > b.lo[2]
    /\ CASE b.hi[1] = "U" -> TRUE [] b.hi[1] = "I" -> 2*k <= b.hi[2] [] b.hi[1] = "E" -> 2*k < b.hi[2]

\* ascending sequence of <<k, v>> visible at S inside the bounds
ScanOf(E, S, b) ==
    LET ks   == {e.k : e \in {x \in E : x.s < S /\ InBounds(x.k, b)}}
        live == {k \in ks : ~IsTomb(NewestIn(E, k, S))}
    IN [i \in 1..Cardinality(live) |->
          LET k == CHOOSE x \in live : Cardinality({y \in live : y < x}) = i - 1
          IN <<k, NewestIn(E, k, S).v>>]

=============================================================================
