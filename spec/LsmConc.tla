------------------------------ MODULE LsmConc ------------------------------
(***************************************************************************)
(* Concurrency of the tree at the granularity of its critical sections.    *)
(* Every step below is one critical section of the code (the locks it      *)
(* holds are named), so steps of different threads interleave freely:      *)
(*                                                                         *)
(*  writer     "w"  W   seqno.next() + append_entry (version read lock) +  *)
(*                      publish, as one step (SplitW = FALSE), or          *)
(*                  W0  seqno.next() by the caller                         *)
(*                  W1  append_entry (version read lock) + publish         *)
(*                      (SplitW = TRUE: other threads run in between)      *)
(*  flusher    "f"  F0  rotate_memtable            (version write lock)    *)
(*                  F1  flush: collect sealed ids + build the stream       *)
(*                          (version lock; released before writing)        *)
(*                  F2  flush_to_tables (no lock): table id allocated,     *)
(*                          table written                                  *)
(*                  F3  register_tables (compaction state + version write  *)
(*                          lock): the fjall#287 guard - skip if one of    *)
(*                          the collected memtables is gone - then install *)
(*                          + maintenance                                  *)
(*  compactor  "c"  C1  choose + hide (compaction state + version read)    *)
(*                  C2  merge the hidden tables (no lock)                  *)
(*                  C3  commit: with_merge on whatever version is current  *)
(*                          then (compaction state + version write), show, *)
(*                          maintenance                                    *)
(*  compactor  "c2" E1-E3  a second, concurrent compaction (as a leveled    *)
(*                      strategy issues them): every table of L0 into L1   *)
(*                      (declined as a whole when one of them is hidden);  *)
(*                      same three critical sections as C1-C3.  With       *)
(*                      CScripted the first compactor is an ordinary       *)
(*                      compaction too (every table that is not hidden     *)
(*                      into the last level) and the two overlap in time;  *)
(*                      a major compaction excludes every other one        *)
(*                      (major_compaction_lock)                            *)
(*  clearer    "k"  K   clear (version write lock only)                    *)
(*  dropper    "d"  D   drop_range(..) over everything: takes the major     *)
(*                      compaction lock exclusively, so it runs only while *)
(*                      no compaction is in flight and is one step         *)
(*                      (compaction state + version write lock)            *)
(*  rotator    "r"  R   rotate_memtable from any other thread (a writer    *)
(*                      that found the memtable full): version write lock  *)
(*                                                                         *)
(* The flush lock serialises flushes (one flusher), the major compaction   *)
(* lock is not modelled (one compactor).  The interleavings are explored   *)
(* exhaustively by TLC within the bounds; the schedules are replayed on    *)
(* the real tree through the yield points of the verif hooks               *)
(* (flush:collected, flush:before_register, compact:hidden,                *)
(* compact:before_commit).                                                 *)
(***************************************************************************)
EXTENDS LsmProps

CONSTANTS CKeys, CVals,      \* keys / values
          NWrites,           \* writes the writer performs
          NFlushes,          \* rotate+flush rounds of the flusher
          NCompactions,      \* compactions of the compactor
          NRotates,          \* rotations by the rotator
          Procs,             \* subset of {"w", "f", "c", "k", "r", "d"}
          Guard287,          \* register_tables' stale-flush guard: "id" = skip when one of the
                             \* collected memtables is gone (the code); mutants used to derive
                             \* schedules that need the guard: "count" = compare counts only,
                             \* "none" = no guard
          SplitW,            \* TRUE: allocating the seqno and inserting are two steps
          CScripted          \* TRUE: "c" is an ordinary compaction (concurrent with "c2"),
                             \* FALSE: a major compaction (exclusive)

VARIABLES st, A, pc, loc, hid, sched,
          pub                \* the snapshots the writer has published: 1 + seqno of every finished write

cvars == <<st, A, pc, loc, hid, sched, pub>>

ValAtC(s) == (CHOOSE f \in [0..Cardinality(CVals)-1 -> CVals] :
                \A i, j \in DOMAIN f : i < j => f[i] < f[j])[s % Cardinality(CVals)]

CInit ==
    /\ st = InitState
    /\ A = AInit
    /\ pc = [p \in Procs |-> CASE p = "w" -> "W" [] p = "f" -> "F0" [] p = "c" -> "C1" [] p = "k" -> "K"
                                [] p = "r" -> "R" [] p = "d" -> "D" [] p = "c2" -> "E1"]
    /\ loc = [p \in Procs |-> [n |-> 0]]
    /\ hid = {}
    /\ sched = <<>>
    /\ pub = {}

Sched(p, step, arg) == sched' = Append(sched, [p |-> p, step |-> step, arg |-> arg])

\* ---------------------------------------------------------------- writer
W ==
    /\ ~SplitW
    /\ "w" \in Procs /\ pc["w"] = "W" /\ loc["w"].n < NWrites
    /\ pub' = pub \cup {st.seq + 1}
    /\ \E k \in CKeys, t \in {"V", "T"} :
         LET it == [k |-> k, t |-> t, v |-> IF t = "V" THEN ValAtC(st.seq) ELSE NoVal]
             e  == [k |-> k, s |-> st.seq, t |-> t, v |-> it.v] IN
         /\ st' = OpWrite(st, {it})
         /\ A' = AWrite(A, {e})
         /\ loc' = [loc EXCEPT !["w"].n = @ + 1]
         /\ Sched("w", "write", it)
    /\ UNCHANGED <<pc, hid>>

W0 ==
    /\ SplitW
    /\ "w" \in Procs /\ pc["w"] = "W" /\ loc["w"].n < NWrites
    /\ st' = [st EXCEPT !.seq = @ + 1]
    /\ loc' = [loc EXCEPT !["w"] = [n |-> @.n, s |-> st.seq]]
    /\ pc' = [pc EXCEPT !["w"] = "W1"]
    /\ Sched("w", "alloc", 0)
    /\ UNCHANGED <<A, hid, pub>>

W1 ==
    /\ "w" \in Procs /\ pc["w"] = "W1"
    /\ \E k \in CKeys, t \in {"V", "T"} :
         LET s  == loc["w"].s
             it == [k |-> k, t |-> t, v |-> IF t = "V" THEN ValAtC(s) ELSE NoVal]
             e  == [k |-> k, s |-> s, t |-> t, v |-> it.v] IN
         /\ st' = OpWriteAt(st, {it}, s)
         /\ A' = AWrite(A, {e})
         /\ loc' = [loc EXCEPT !["w"] = [n |-> @.n + 1]]
         /\ pub' = pub \cup {s + 1}
         /\ Sched("w", "write", it)
    /\ pc' = [pc EXCEPT !["w"] = "W"]
    /\ UNCHANGED hid

\* ---------------------------------------------------------------- flusher
F0 ==
    /\ "f" \in Procs /\ pc["f"] = "F0" /\ loc["f"].n < NFlushes
    /\ st' = OpRotate(st)
    /\ pc' = [pc EXCEPT !["f"] = "F1"]
    /\ Sched("f", "rotate", 0)
    /\ UNCHANGED <<A, loc, hid>>

F1 ==
    /\ "f" \in Procs /\ pc["f"] = "F1"
    /\ LET sv == Latest(st) IN
       IF sv.sealed = <<>>
       THEN /\ pc' = [pc EXCEPT !["f"] = "F0"]
            /\ loc' = [loc EXCEPT !["f"].n = @ + 1]
       ELSE /\ pc' = [pc EXCEPT !["f"] = "F2"]
            /\ loc' = [loc EXCEPT !["f"] = [n |-> @.n, ids |-> sv.sealed,
                                            out |-> FlushOutput(st, 0)]]
    /\ Sched("f", "collect", 0)
    /\ UNCHANGED <<st, A, hid>>

F2 ==
    /\ "f" \in Procs /\ pc["f"] = "F2"
    /\ st' = [st EXCEPT !.tblId = @ + 1]
    /\ loc' = [loc EXCEPT !["f"] = [@ EXCEPT !.n = @] @@ [tid |-> st.tblId]]
    /\ pc' = [pc EXCEPT !["f"] = "F3"]
    /\ Sched("f", "write", 0)
    /\ UNCHANGED <<A, hid>>

\* register_tables: remove exactly the collected memtables, add the table as new L0 run
F3 ==
    /\ "f" \in Procs /\ pc["f"] = "F3"
    /\ LET sv   == Latest(st)
           l    == loc["f"]
           gone == \E m \in Range(l.ids) : m \notin Range(sv.sealed)
           fewer == Len(sv.sealed) < Len(l.ids)
       IN IF (Guard287 = "id" /\ gone) \/ (Guard287 = "count" /\ fewer)
          THEN st' = st       \* the tables written stay unregistered
          ELSE LET out == l.out
                   T2  == IF out = <<>> THEN st.tbl ELSE st.tbl @@ (l.tid :> [e |-> out, g |-> 0])
                   run == IF out = <<>> THEN <<>> ELSE <<l.tid>>
                   nsv == [sv EXCEPT !.sealed = SelectSeq(@, LAMBDA m : m \notin Range(l.ids)),
                                     !.lv = WithNewL0Run(sv.lv, run, T2)]
                   s1  == [st EXCEPT !.tbl = T2, !.seq = @ + 1]
               IN st' = Collect(Install(s1, nsv, st.seq))
    /\ pc' = [pc EXCEPT !["f"] = "F0"]
    /\ loc' = [loc EXCEPT !["f"] = [n |-> @.n + 1]]
    /\ Sched("f", "register", 0)
    /\ UNCHANGED <<A, hid>>

\* ---------------------------------------------------------------- compactor
\* C1: a major-style choice: every table of the current version into the last level
OtherAtRest(p) == p \in Procs => pc[p] \in {"C1", "E1"}

C1 ==
    /\ "c" \in Procs /\ pc["c"] = "C1" /\ loc["c"].n < NCompactions
    /\ CScripted \/ OtherAtRest("c2")
    /\ LET ids == IF CScripted THEN AllIds(Latest(st).lv) \ hid ELSE AllIds(Latest(st).lv) IN
       /\ ids # {} /\ ids \cap hid = {}
       /\ CScripted => LegalMerge(st, ids, LastLevel)
       /\ hid' = hid \cup ids
       /\ loc' = [loc EXCEPT !["c"] = [n |-> @.n, ids |-> ids, inp |-> MergeInput(st, ids)]]
    /\ pc' = [pc EXCEPT !["c"] = "C2"]
    /\ Sched("c", "choose", 0)
    /\ UNCHANGED <<st, A>>

C2 ==
    /\ "c" \in Procs /\ pc["c"] = "C2"
    /\ LET out == CompactionStream(loc["c"].inp, 0, TRUE, NoFilter).out IN
       /\ st' = [st EXCEPT !.tblId = @ + 1]
       /\ loc' = [loc EXCEPT !["c"] = [@ EXCEPT !.n = @] @@ [out |-> out, tid |-> st.tblId]]
    /\ pc' = [pc EXCEPT !["c"] = "C3"]
    /\ Sched("c", "merge", 0)
    /\ UNCHANGED <<A, hid>>

C3 ==
    /\ "c" \in Procs /\ pc["c"] = "C3"
    /\ LET sv  == Latest(st)
           l   == loc["c"]
           new == IF l.out = <<>> THEN <<>> ELSE <<l.tid>>
           T2  == IF l.out = <<>> THEN st.tbl ELSE st.tbl @@ (l.tid :> [e |-> l.out, g |-> 0])
           nsv == [sv EXCEPT !.lv = WithMerge(sv.lv, l.ids, new, LastLevel, T2)]
           s1  == [st EXCEPT !.tbl = T2, !.seq = @ + 1]
       IN st' = Collect(Install(s1, nsv, st.seq))
    /\ hid' = hid \ loc["c"].ids
    /\ pc' = [pc EXCEPT !["c"] = "C1"]
    /\ loc' = [loc EXCEPT !["c"] = [n |-> @.n + 1]]
    /\ Sched("c", "commit", 0)
    /\ UNCHANGED A

\* ---------------------------------------------------------------- second compactor
L0Ids == UNION {Range(run) : run \in Range(Latest(st).lv[1])}

E1 ==
    /\ "c2" \in Procs /\ pc["c2"] = "E1" /\ loc["c2"].n < NCompactions
    /\ CScripted \/ OtherAtRest("c")
    /\ LET ids == L0Ids IN
       /\ ids # {}
       /\ LegalMerge(st, ids, 1)
       /\ IF ids \cap hid # {}
          THEN \* the strategy asks for a table another compaction has hidden: the worker
               \* declines the whole choice (HiddenSet: blocked if ANY of them is hidden)
               /\ loc' = [loc EXCEPT !["c2"].n = @ + 1]
               /\ Sched("c2", "choose", 1)
               /\ UNCHANGED <<hid, pc>>
          ELSE /\ hid' = hid \cup ids
               /\ loc' = [loc EXCEPT !["c2"] = [n |-> @.n, ids |-> ids, inp |-> MergeInput(st, ids)]]
               /\ pc' = [pc EXCEPT !["c2"] = "E2"]
               /\ Sched("c2", "choose", 0)
    /\ UNCHANGED <<st, A>>

E2 ==
    /\ "c2" \in Procs /\ pc["c2"] = "E2"
    /\ LET out == CompactionStream(loc["c2"].inp, 0, FALSE, NoFilter).out IN
       /\ st' = [st EXCEPT !.tblId = @ + 1]
       /\ loc' = [loc EXCEPT !["c2"] = [@ EXCEPT !.n = @] @@ [out |-> out, tid |-> st.tblId]]
    /\ pc' = [pc EXCEPT !["c2"] = "E3"]
    /\ Sched("c2", "merge", 0)
    /\ UNCHANGED <<A, hid>>

E3 ==
    /\ "c2" \in Procs /\ pc["c2"] = "E3"
    /\ LET sv  == Latest(st)
           l   == loc["c2"]
           new == IF l.out = <<>> THEN <<>> ELSE <<l.tid>>
           T2  == IF l.out = <<>> THEN st.tbl ELSE st.tbl @@ (l.tid :> [e |-> l.out, g |-> 0])
           nsv == [sv EXCEPT !.lv = WithMerge(sv.lv, l.ids, new, 1, T2)]
           s1  == [st EXCEPT !.tbl = T2, !.seq = @ + 1]
       IN st' = Collect(Install(s1, nsv, st.seq))
    /\ hid' = hid \ loc["c2"].ids
    /\ pc' = [pc EXCEPT !["c2"] = "E1"]
    /\ loc' = [loc EXCEPT !["c2"] = [n |-> @.n + 1]]
    /\ Sched("c2", "commit", 0)
    /\ UNCHANGED A

\* ---------------------------------------------------------------- clear
K ==
    /\ "k" \in Procs /\ pc["k"] = "K" /\ loc["k"].n = 0
    /\ st' = OpClear(st)
    /\ A' = AClear(A, st.seq)
    /\ loc' = [loc EXCEPT !["k"].n = 1]
    /\ Sched("k", "clear", 0)
    /\ UNCHANGED <<pc, hid>>

\* ---------------------------------------------------------------- rotator
\* seals the active memtable while a flush may be between collecting and registering: the
\* flush must remove exactly the memtables it collected
R ==
    /\ "r" \in Procs /\ pc["r"] = "R" /\ loc["r"].n < NRotates
    /\ st.mem[Latest(st).act] # {}
    /\ st' = OpRotate(st)
    /\ A' = ARotate(A)
    /\ loc' = [loc EXCEPT !["r"].n = @ + 1]
    /\ Sched("r", "rotate", 0)
    /\ UNCHANGED <<pc, hid>>

\* ---------------------------------------------------------------- drop_range
\* major_compaction_lock.write(): waits for the compactor to be at rest, excludes it meanwhile
D ==
    /\ "d" \in Procs /\ pc["d"] = "D" /\ loc["d"].n = 0
    /\ OtherAtRest("c") /\ OtherAtRest("c2")
    /\ st' = OpDropRange(st, FullBounds)
    /\ A' = ADropRange(A, CKeys, st.seq)
    /\ loc' = [loc EXCEPT !["d"].n = 1]
    /\ Sched("d", "droprange", 0)
    /\ UNCHANGED <<pc, hid>>

CNext == W \/ W0 \/ W1
         \/ ((F0 \/ F1 \/ F2 \/ F3 \/ C1 \/ C2 \/ C3 \/ E1 \/ E2 \/ E3 \/ K \/ R \/ D) /\ UNCHANGED pub)
CSpec == CInit /\ [][CNext]_cvars

-----------------------------------------------------------------------------
(* C06: whatever the schedule, a read at the newest snapshot / the visible *)
(* seqno returns the ordered-map value, every published version is         *)
(* structurally sound, and nothing stays hidden once the compactor rests.  *)
(***************************************************************************)
ConcReadsRefine == PReadsRefine(st, A, CKeys)
ConcScansRefine == PScansRefine(st, A)
ConcStructure   == PStructureSound(st)
HiddenAtRest    == (OtherAtRest("c") /\ OtherAtRest("c2")) => hid = {}
\* reads at the snapshot the writer has published (known finding C06-late-insert excluded)
ConcPubReads ==
    \A S \in pub : \A k \in CKeys \ LateInsertKeys(st, S) :
        Defined(A, k, S) => ReadAt(st, k, S) = Oracle(A, k, S)
\* witness (expected to be VIOLATED when SplitW): the known finding is reachable
NoLateInsert == \A S \in pub : LateInsertKeys(st, S) = {}

ViewConc == <<st, A, pc, loc, hid, pub>>
=============================================================================
