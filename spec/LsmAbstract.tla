----------------------------- MODULE LsmAbstract -----------------------------
(***************************************************************************)
(* Layer A: what a user may rely on.  The tree is a multi-version ordered  *)
(* map: the log of acknowledged writes, which of them are not yet flushed, *)
(* and the cut-offs introduced by clear / drop_range.  It knows nothing    *)
(* about memtables, levels or files.  Every API call is one operator.      *)
(*                                                                         *)
(*   log    set of records [k, s, t, v] (acknowledged writes, ingested     *)
(*          entries with their global seqno)                               *)
(*   act    records in the active memtable (lost by a reopen)              *)
(*   sld    records in sealed memtables (lost by a reopen)                 *)
(***************************************************************************)
EXTENDS LsmCore

AInit == [log |-> {}, act |-> {}, sld |-> {}]

\* what an ordered map replaying the acknowledged writes returns at snapshot S
Oracle(a, k, S) ==
    LET r == NewestIn(a.log, k, S)
    IN IF r = None \/ IsTomb(r) THEN NoVal ELSE r.v

OracleScan(a, S, b) == ScanOf(a.log, S, b)

Durable(a) == a.log \ (a.act \cup a.sld)

AWrite(a, es)  == [a EXCEPT !.log = @ \cup es, !.act = @ \cup es]
ARotate(a)     == [a EXCEPT !.sld = @ \cup a.act, !.act = {}]
AFlush(a)      == [a EXCEPT !.sld = {}]
AReopen(a)     == [log |-> Durable(a), act |-> {}, sld |-> {}]

=============================================================================
