----------------------------- MODULE LsmAbstract -----------------------------
(***************************************************************************)
(* Layer A: what a user may rely on.  The tree is a multi-version ordered  *)
(* map: the log of acknowledged writes, which of them are not yet flushed, *)
(* and the cut-offs introduced by clear / drop_range.  It knows nothing    *)
(* about memtables, levels or files.  Every API call is one operator.      *)
(*                                                                         *)
(*   log    set of records [k, s, t, v] (acknowledged writes, ingested     *)
(*          entries with their global seqno)                               *)
(*   act    records in the active memtable (lost by a reopen)              *)
(*   sld    records in sealed memtables (lost by a reopen)                 *)
(*   clears seqnos at which clear() was installed                          *)
(*   taint  <<key, seqno>>: a drop_range installed at seqno covered key    *)
(*   haz    keys hit by a listed known finding (KnownFindings.tla)         *)
(*   fx     compaction filter effects [k, s, c, t, v]                      *)
(*   flat   drop_range marks that a reopen has made independent of the     *)
(*          snapshot (only the newest version survives a reopen)           *)
(***************************************************************************)
EXTENDS LsmCore

AInit == [log |-> {}, act |-> {}, sld |-> {}, clears |-> {}, taint |-> {}, haz |-> {}, fx |-> {},
          flat |-> {}]

\* a compaction filter verdict applied by a compaction installed with seqno c rewrites
\* record (k, s) for snapshots taken afterwards: fx holds [k, s, c, t, v], t = "D" destroyed
EffRec(a, r, S) ==
    LET es == {x \in a.fx : x.k = r.k /\ x.s = r.s /\ x.c < S}
    IN IF es = {} THEN r
       ELSE LET x == CHOOSE y \in es : \A z \in es : z.c <= y.c
            IN [k |-> r.k, s |-> r.s, t |-> x.t, v |-> x.v]

\* records a snapshot S can see: written below S, not cut off by a clear below S, as
\* rewritten by the filter verdicts installed below S
LiveAt(a, S) ==
    LET base == {q \in a.log : q.s < S /\ \A c \in a.clears : c < S => q.s > c}
    IN IF a.fx = {} THEN base
       ELSE {e \in {EffRec(a, r, S) : r \in base} : e.t # "D"}

\* what an ordered map replaying the acknowledged writes returns at snapshot S
\* (the ...L variants take L = LiveAt(a, S) computed once)
OracleL(L, k, S) ==
    LET r == NewestIn(L, k, S)
    IN IF r = None \/ IsTomb(r) THEN NoVal ELSE r.v
Oracle(a, k, S) == OracleL(LiveAt(a, S), k, S)

OracleScan(a, S, b) == ScanOf(LiveAt(a, S), S, b)

\* drop_range deliberately leaves reads of the keys it covered unconstrained (for
\* snapshots taken after it) until the key is written again
\*   taint: set of <<k, d>>: a drop_range installed with seqno d covered key k
DefinedL(a, L, k, S) ==
    /\ k \notin a.haz
    /\ \A p \in a.taint :
        p[1] = k /\ (p[2] < S \/ p \in a.flat) => \E r \in L : r.k = k /\ r.s > p[2]
Defined(a, k, S) == DefinedL(a, LiveAt(a, S), k, S)

Durable(a) == a.log \ (a.act \cup a.sld)
\* durable records as the newest snapshot sees them (filter verdicts applied)
DurableEff(a) == {e \in {EffRec(a, r, Top) : r \in Durable(a)} : e.t # "D"}
LiveDurable(a) == {e \in LiveAt(a, Top) : \A u \in a.act \cup a.sld : ~(u.k = e.k /\ u.s = e.s)}
\* compaction filter effects (C17)
AFilter(a, fxs) == [a EXCEPT !.fx = @ \cup fxs]

AWrite(a, es)  == [a EXCEPT !.log = @ \cup es, !.act = @ \cup es]
ARotate(a)     == [a EXCEPT !.sld = @ \cup a.act, !.act = {}]
AFlush(a)      == [a EXCEPT !.sld = {}]
\* drop (close) + open: unflushed records are gone; only the newest version survives, so what
\* clear, drop_range and filter verdicts did holds for every snapshot from now on
AReopen(a)     ==
    LET kept == {q \in Durable(a) : \A c \in a.clears : q.s > c}
        eff  == {e \in {EffRec(a, r, Top) : r \in kept} : e.t # "D"}
    IN [a EXCEPT !.log = eff, !.act = {}, !.sld = {}, !.clears = {}, !.fx = {}, !.flat = a.taint]
\* clear installed with seqno c
AClear(a, c)   == [a EXCEPT !.clears = @ \cup {c}, !.act = {}, !.sld = {}]
\* drop_range over the key set ks installed with seqno d
ADropRange(a, ks, d) == [a EXCEPT !.taint = @ \cup {<<k, d>> : k \in ks}]
\* keys hit by a listed known finding (KnownFindings.tla): reads of them are excluded
\* from the verdict and reported as KNOWN instead
AHazard(a, ks) == [a EXCEPT !.haz = @ \cup ks]

\* ingestion: pending memtables are flushed, then the batch appears with seqno g
AIngest(a, es) == [a EXCEPT !.log = @ \cup es, !.act = {}, !.sld = {}]

=============================================================================
