----------------------------- MODULE LsmAbstract -----------------------------
(***************************************************************************)
(* Layer A: what a user may rely on.  The tree is a multi-version ordered  *)
(* map: the log of acknowledged writes, which of them are not yet flushed, *)
(* and the cut-offs introduced by clear / drop_range.  It knows nothing    *)
(* about memtables, levels or files.  Every API call is one operator.      *)
(*                                                                         *)
(*   log    set of records [k, s, t, v] (acknowledged writes, ingested     *)
(*          entries with their global seqno)                               *)
(*   act    records in the active memtable (lost by a reopen)              *)
(*   sld    records in sealed memtables (lost by a reopen)                 *)
(*   clears seqnos at which clear() was installed                          *)
(*   taint  <<key, seqno>>: a drop_range installed at seqno covered key    *)
(*   haz    keys hit by a listed known finding (KnownFindings.tla)         *)
(***************************************************************************)
EXTENDS LsmCore

AInit == [log |-> {}, act |-> {}, sld |-> {}, clears |-> {}, taint |-> {}, haz |-> {}]

\* records a snapshot S can see: written below S and not cut off by a clear below S
LiveAt(a, S) == {r \in a.log : r.s < S /\ \A c \in a.clears : c < S => r.s > c}

\* what an ordered map replaying the acknowledged writes returns at snapshot S
Oracle(a, k, S) ==
    LET r == NewestIn(LiveAt(a, S), k, S)
    IN IF r = None \/ IsTomb(r) THEN NoVal ELSE r.v

OracleScan(a, S, b) == ScanOf(LiveAt(a, S), S, b)

\* drop_range deliberately leaves reads of the keys it covered unconstrained (for
\* snapshots taken after it) until the key is written again
\*   taint: set of <<k, d>>: a drop_range installed with seqno d covered key k
Defined(a, k, S) ==
    /\ k \notin a.haz
    /\ \A p \in a.taint :
        p[1] = k /\ p[2] < S => \E r \in LiveAt(a, S) : r.k = k /\ r.s > p[2]

Durable(a) == a.log \ (a.act \cup a.sld)
LiveDurable(a) == LiveAt(a, Top) \ (a.act \cup a.sld)

AWrite(a, es)  == [a EXCEPT !.log = @ \cup es, !.act = @ \cup es]
ARotate(a)     == [a EXCEPT !.sld = @ \cup a.act, !.act = {}]
AFlush(a)      == [a EXCEPT !.sld = {}]
AReopen(a)     == [a EXCEPT !.log = Durable(a), !.act = {}, !.sld = {}]
\* clear installed with seqno c
AClear(a, c)   == [a EXCEPT !.clears = @ \cup {c}, !.act = {}, !.sld = {}]
\* drop_range over the key set ks installed with seqno d
ADropRange(a, ks, d) == [a EXCEPT !.taint = @ \cup {<<k, d>> : k \in ks}]
\* keys hit by a listed known finding (KnownFindings.tla): reads of them are excluded
\* from the verdict and reported as KNOWN instead
AHazard(a, ks) == [a EXCEPT !.haz = @ \cup ks]

\* ingestion: pending memtables are flushed, then the batch appears with seqno g
AIngest(a, es) == [a EXCEPT !.log = @ \cup es, !.act = {}, !.sld = {}]

=============================================================================
