---------------------------- MODULE LsmFifoApa ----------------------------
(***************************************************************************)
(* LsmFifo!FifoChoose and property C19 in the fragment Apalache accepts    *)
(* (typed, folds instead of recursion).  Apalache checks ChoiceIsSound and *)
(* ChoiceSuffices symbolically: for EVERY sequence of at most MaxLen       *)
(* tables with arbitrary integer creation times, sizes and blob bytes and  *)
(* every integer limit, TTL, clock and blob total - not only the small     *)
(* value sets TLC enumerates (MC_fifo).                                    *)
(*   apalache-mc check --length=0 --inv=Inv LsmFifoApa.tla                 *)
(***************************************************************************)
EXTENDS Integers, Sequences, FiniteSets, Apalache

VARIABLES
    \* @type: Seq({id: Int, created: Int, size: Int, bb: Int});
    ts,
    \* @type: Int;
    dbsize,
    \* @type: Int;
    limit,
    \* @type: Int;
    ttl,
    \* @type: Int;
    now

MaxLen == 4

\* @type: (Int, Int) => Int;
Monus(a, b) == IF a > b THEN a - b ELSE 0

\* @type: ({id: Int, created: Int, size: Int, bb: Int}) => Bool;
Expired(t) == ttl > 0 /\ t.created <= Monus(now, ttl)

\* @type: (Set(Int)) => Int;
SumBytes(idx) == ApaFoldSet(LAMBDA acc, i : acc + ts[i].size + ts[i].bb, 0, idx)

\* @type: (Int, Int) => Bool;
FifoBefore(i, j) == ts[i].created < ts[j].created \/ (ts[i].created = ts[j].created /\ i < j)

All == DOMAIN ts
Exp == {i \in All : Expired(ts[i])}
Alive == All \ Exp
After == Monus(dbsize, SumBytes(Exp))
Over == After - limit
Taken == IF After > limit
         THEN {i \in Alive : SumBytes({j \in Alive : FifoBefore(j, i)}) < Over}
         ELSE {}
\* indices dropped by the strategy (ids = indices here)
Chosen == Exp \cup Taken

Init ==
    /\ ts = Gen(MaxLen)
    /\ dbsize = Gen(1) /\ limit = Gen(1) /\ ttl = Gen(1) /\ now = Gen(1)
    /\ \A i \in DOMAIN ts : ts[i].id = i /\ ts[i].created >= 0 /\ ts[i].size >= 1 /\ ts[i].bb >= 0
    /\ limit >= 0 /\ ttl >= 0 /\ now >= 0
    \* table bytes plus the blob files' on-disk bytes (at least nothing negative)
    /\ dbsize >= ApaFoldSet(LAMBDA acc, i : acc + ts[i].size, 0, DOMAIN ts)

Next == UNCHANGED <<ts, dbsize, limit, ttl, now>>

\* C19
ChoiceIsSound ==
    /\ \A d \in Chosen : \A x \in All \ Chosen :
          ts[d].created <= ts[x].created \/ Expired(ts[d])
    /\ (dbsize <= limit /\ \A i \in All : ~Expired(ts[i])) => Chosen = {}

\* what it drops for size suffices unless everything is gone (needs dbsize to count at least
\* what the tables reference)
ChoiceSuffices ==
    dbsize >= SumBytes(All) =>
        (Monus(dbsize, SumBytes(Chosen)) <= limit \/ Chosen = All)

Inv == ChoiceIsSound /\ ChoiceSuffices
=============================================================================
