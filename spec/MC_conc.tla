------------------------------ MODULE MC_conc ------------------------------
EXTENDS LsmConc, Json
\* one line per explored transition of the interleaving graph (sampled): the schedule
PrintSched(KK) ==
    IF KK = 1 \/ RandomElement(1..KK) = 1 THEN PrintT(<<"SCHED", ToJson(sched')>>) ELSE TRUE
PrintSched1 == PrintSched(1)
PrintSched40 == PrintSched(40)
PrintSched400 == PrintSched(400)
=============================================================================
