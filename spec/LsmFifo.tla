------------------------------ MODULE LsmFifo ------------------------------
(***************************************************************************)
(* The FIFO strategy's choice as a function (src/compaction/fifo.rs        *)
(* Strategy::choose), and property C19 stated on it.                       *)
(*   ts      the tables of L0 in iteration order (runs, then tables):      *)
(*           Seq([id, created, size, bb])  bb = referenced blob bytes      *)
(*   dbsize  L0 table bytes + on-disk bytes of all blob files              *)
(*   limit   size limit; ttl: 0 = disabled; now: clock (same unit as       *)
(*           created)                                                      *)
(* TLC checks FifoProp for every input within the bounds (MC_fifo.cfg);    *)
(* TraceLsm compares the real strategy's choice with FifoChoose on the     *)
(* recorded tables (conformance) and judges the real choice by FifoOk.     *)
(***************************************************************************)
EXTENDS Naturals, Sequences, FiniteSets, TLC

Monus(a, b) == IF a > b THEN a - b ELSE 0

Expired(t, ttl, now) == ttl > 0 /\ t.created <= Monus(now, ttl)

RECURSIVE SumBytes(_, _)
SumBytes(ts, idx) ==   \* bytes (table + linked blob bytes) of the tables at the given indices
    IF idx = {} THEN 0
    ELSE LET i == CHOOSE j \in idx : TRUE IN ts[i].size + ts[i].bb + SumBytes(ts, idx \ {i})

\* stable sort of the alive indices by creation time (sort_by_key is stable)
FifoBefore(ts, i, j) == ts[i].created < ts[j].created \/ (ts[i].created = ts[j].created /\ i < j)
Rank(ts, alive, i) == Cardinality({j \in alive : FifoBefore(ts, j, i)})

FifoChoose(ts, dbsize, limit, ttl, now) ==
    LET all     == 1..Len(ts)
        exp     == {i \in all : Expired(ts[i], ttl, now)}
        alive   == all \ exp
        after   == Monus(dbsize, SumBytes(ts, exp))
        over    == after - limit
        \* oldest first; a table is taken while the bytes collected before it are below the overshoot
        taken   == IF after > limit
                   THEN {i \in alive : SumBytes(ts, {j \in alive : FifoBefore(ts, j, i)}) < over}
                   ELSE {}
    IN IF ts = <<>> THEN {} ELSE {ts[i].id : i \in exp \cup taken}

\* C19 on a choice D (set of ids)
FifoProp(ts, dbsize, limit, ttl, now, D) ==
    LET ids == {ts[i].id : i \in 1..Len(ts)}
        T(id) == ts[CHOOSE i \in 1..Len(ts) : ts[i].id = id] IN
    /\ D \subseteq ids
    /\ \A d \in D : \A x \in ids \ D : T(d).created <= T(x).created \/ Expired(T(d), ttl, now)
    /\ (dbsize <= limit /\ \A i \in 1..Len(ts) : ~Expired(ts[i], ttl, now)) => D = {}

=============================================================================
