------------------------------ MODULE TableFmt ------------------------------
(***************************************************************************)
(* The table (SST) as the read paths see it: a strictly ordered stream of  *)
(* versioned entries cut into data blocks, and an index with one entry per *)
(* block (the block's last user key and that item's seqno).                *)
(*                                                                         *)
(* Point read (src/table/mod.rs Table::point_read + index_block/iter.rs    *)
(* seek): skip every block whose end key is below the needle, or equal to  *)
(* it with an end seqno that is not visible; then walk forward: the first  *)
(* item of the key with seqno < S wins; stop as soon as a block ends       *)
(* beyond the key.                                                         *)
(*                                                                         *)
(* TLC checks, for every stream over Keys x Seqs, every partition into     *)
(* blocks and every probe (also between and around the keys), that the     *)
(* algorithm returns exactly "the first item of the key with seqno < S".   *)
(* The same definitions are the oracle of TraceTable.tla (C12).            *)
(***************************************************************************)
EXTENDS Naturals, Sequences, FiniteSets, SequencesExt, FiniteSetsExt, TLC

CONSTANTS TKeys, TSeqs    \* e.g. {2, 4, 6} (probes use the odd points too), 0..2

TBefore(a, b) == a.k < b.k \/ (a.k = b.k /\ a.s > b.s)
AllPairs == {[k |-> k, s |-> s] : k \in TKeys, s \in TSeqs}
StreamOf(S) == SetToSortSeq(S, TBefore)

\* cut points: a new block starts at index i (any cut is allowed, also inside the
\* version slab of one key)
Blocks(q, cuts) ==
    LET starts == SetToSortSeq({1} \cup cuts, <)
    IN [j \in 1..Len(starts) |->
          SubSeq(q, starts[j], IF j = Len(starts) THEN Len(q) ELSE starts[j+1] - 1)]

BEnd(b) == b[Len(b)]

\* index seek predicate: the block is skipped
Skip(b, k, S) == BEnd(b).k < k \/ (BEnd(b).k = k /\ BEnd(b).s >= S)

\* DataBlock::point_read
InBlock(b, k, S) ==
    LET idx == {i \in 1..Len(b) : b[i].k = k /\ b[i].s < S}
    IN IF idx = {} THEN 0 ELSE Min(idx)

RECURSIVE Walk(_, _, _, _)
Walk(bs, i, k, S) ==
    IF i > Len(bs) THEN <<>>
    ELSE LET h == InBlock(bs[i], k, S) IN
         IF h # 0 THEN <<bs[i][h]>>
         ELSE IF BEnd(bs[i]).k > k THEN <<>>
         ELSE Walk(bs, i + 1, k, S)

PointReadT(bs, k, S) ==
    LET cand == {i \in 1..Len(bs) : ~Skip(bs[i], k, S)}
    IN IF cand = {} THEN <<>> ELSE Walk(bs, Min(cand), k, S)

\* definition: the first item of the key with seqno < S (as a 0/1-element sequence)
PointReadDef(q, k, S) ==
    LET idx == {i \in 1..Len(q) : q[i].k = k /\ q[i].s < S}
    IN IF idx = {} THEN <<>> ELSE <<q[Min(idx)]>>

VARIABLES q, cuts
Init == /\ q \in {StreamOf(S) : S \in (SUBSET AllPairs) \ {{}}}
        /\ cuts \in SUBSET (2..Len(q))
Next == UNCHANGED <<q, cuts>>
Spec == Init /\ [][Next]_<<q, cuts>>

Probes == (Min(TKeys) - 1)..(Max(TKeys) + 1)
PointReadCorrect ==
    \A k \in Probes : \A S \in 0..(Max(TSeqs) + 2) :
        PointReadT(Blocks(q, cuts), k, S) = PointReadDef(q, k, S)
=============================================================================
