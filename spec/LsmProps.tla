------------------------------ MODULE LsmProps ------------------------------
(***************************************************************************)
(* The listed properties as predicates over a Layer B state `st` (model    *)
(* state or a state recorded from the real tree) and a Layer A ghost `a`.  *)
(* Used as invariants by LsmTree and evaluated on recorded real states by  *)
(* TraceLsm.                                                               *)
(***************************************************************************)
EXTENDS LsmOps, LsmAbstract, KnownFindings

ReadPointsOf(st) == {Top, st.vis} \cup st.snaps

\* C01 / C02 / C13: point reads equal the ordered-map oracle at the newest snapshot and
\* at every held snapshot (a "PANIC" read never equals an oracle value)
PReadsRefine(st, a, keys) ==
    \A S \in ReadPointsOf(st) :
        LET L == LiveAt(a, S) IN
        \A k \in keys : DefinedL(a, L, k, S) => ReadAt(st, k, S) = OracleL(L, k, S)

\* C03 (full range): scans equal the oracle's scan
OnlyDefinedL(sq, a, L, S) ==
    IF a.haz = {} /\ a.taint = {} THEN sq ELSE SelectSeq(sq, LAMBDA p : DefinedL(a, L, p[1], S))
OnlyDefined(sq, a, S) == OnlyDefinedL(sq, a, LiveAt(a, S), S)

PScansRefine(st, a) ==
    \A S \in ReadPointsOf(st) :
        LET r == ScanAt(st, S, FullBounds)
            L == LiveAt(a, S) IN
        OnlyDefinedL(r, a, L, S) = OnlyDefinedL(ScanOf(L, S, FullBounds), a, L, S)

\* C07: structure of a version
RunSound(run, T) ==
    \A i \in 1..Len(run) - 1 : TMaxKey(T[run[i]]) < TMinKey(T[run[i+1]])

TableSound(tb) ==
    /\ tb.e # <<>>
    /\ \A i \in 1..Len(tb.e) - 1 : Before(tb.e[i], tb.e[i+1])

\* wherever two tables of different runs hold the same key, the one read first holds
\* only newer seqnos for it
ReadOrderSound(lv, T) ==
    \A x \in AllIds(lv), y \in AllIds(lv) :
        x # y /\ ReadsBefore(lv, x, y) =>
            \A ex \in TEff(T[x]), ey \in TEff(T[y]) : ex.k = ey.k => ex.s > ey.s

VersionSound(sv, T) ==
    /\ \A i \in 1..NLevels : \A j \in 1..Len(sv.lv[i]) :
          sv.lv[i][j] # <<>> /\ RunSound(sv.lv[i][j], T)
    /\ \A t \in AllIds(sv.lv) : TableSound(T[t])
    /\ ReadOrderSound(sv.lv, T)
    /\ Len(FlatIds(sv.lv)) = Cardinality(AllIds(sv.lv))

PStructureSound(st) == \A i \in 1..Len(st.hist) : VersionSound(st.hist[i], st.tbl)

\* C04 / C18: nothing stored that was not written; every stored entry is a durable record
\* a separated value ("I", pointer into a blob file) is the same write as an inline one
Norm(e) == IF e.t = "I" THEN [e EXCEPT !.t = "V"] ELSE e
StoredEntries(st) == {Norm(e) : e \in UNION {TEff(st.tbl[t]) : t \in AllIds(Latest(st).lv)}}
PNoInvention(st, a) == StoredEntries(st) \subseteq DurableEff(a)

\* C04: the newest durable record of a live key is still stored
PDurableKept(st, a, keys) ==
    \A k \in keys :
        LET r == NewestIn(LiveDurable(a), k, Top)
        IN r # None /\ ~IsTomb(r) /\ (\A p \in a.taint : p[1] = k => r.s > p[2])
              => r \in StoredEntries(st)

\* C18: marks against Layer A: the persisted mark never exceeds the largest flushed
\* seqno; the memtable mark is the largest unflushed one
PHiSound(st, a) ==
    /\ HiPersisted(st) <= SeqMaxOf({e.s : e \in Durable(a)})
    /\ HiMemtable(st) = SeqMaxOf({e.s : e \in a.act \cup a.sld})

\* C02: every held snapshot resolves to a super version
PSnapsResolve(st) == \A S \in st.snaps : SvIndexFor(st.hist, S) # 0

=============================================================================
