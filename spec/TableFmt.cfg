SPECIFICATION Spec
CONSTANTS
  TKeys = {2, 4, 6}
  TSeqs = {0, 1, 2}
INVARIANT PointReadCorrect
CHECK_DEADLOCK FALSE
