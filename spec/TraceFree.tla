------------------------------ MODULE TraceFree ------------------------------
(***************************************************************************)
(* C06, free-running part: judgement of the event log of an unscheduled    *)
(* multi-threaded run (harness free).  Events, in the order they were      *)
(* logged: reset; w (an acknowledged write, logged before its seqno is     *)
(* published); r (a point read at a published snapshot S); scan; err;      *)
(* final (reads at the newest snapshot once all threads have finished,     *)
(* hidden set); reopen (after flushing everything and reopening).          *)
(* A read at snapshot S may only depend on the writes with seqno < S, all  *)
(* of which were logged before S was published - whatever the schedule.    *)
(***************************************************************************)
EXTENDS LsmCore, Json, IOUtils

Rec == ndJsonDeserialize(IOEnv.TRACE)
NKeys == atoi(IOEnv.NKEYS)
VARIABLES l, W      \* W: writes logged so far in the current round

Say(kind, what, i, d) == PrintT(ToJson(<<kind, what, i, d>>))

Val(S, k, E) ==
    LET r == NewestIn(E, k, S) IN IF r = None \/ IsTomb(r) THEN NoVal ELSE r.v

Full == [lo |-> <<"U", 0>>, hi |-> <<"U", 0>>]

EvOk(i, E) ==
    LET e == Rec[i] IN
    CASE e.ev = "r"    -> e.v = Val(e.S, e.k, E) \/ Say("VIOL", "READ", i, <<e, Val(e.S, e.k, E)>>)
      [] e.ev = "scan" -> e.r = ScanOf(E, e.S, Full) \/ Say("VIOL", "SCAN", i, <<e, ScanOf(E, e.S, Full)>>)
      [] e.ev = "err"  -> Say("VIOL", "OPFAIL", i, e)
      [] e.ev \in {"final", "reopen"} ->
            /\ (\A k \in 1..NKeys : e.gets[k] = Val(Top, k, E)) \/ Say("VIOL", "READ", i, e.gets)
            /\ e.scan = ScanOf(E, Top, Full) \/ Say("VIOL", "SCAN", i, e.scan)
            /\ e.hidden = <<>> \/ Say("VIOL", "HIDDENREST", i, e.hidden)
      [] OTHER -> TRUE

Init == l = 0 /\ W = {}
Next ==
    /\ l < Len(Rec)
    /\ l' = l + 1
    /\ LET e == Rec[l + 1] IN
       /\ W' = IF e.ev = "reset" THEN {}
               ELSE IF e.ev = "w" THEN W \cup {[k |-> e.k, s |-> e.s, t |-> e.t, v |-> e.v]}
               ELSE W
       /\ EvOk(l + 1, W')
Spec == Init /\ [][Next]_<<l, W>>
Accepted == TLCGet("stats").diameter - 1 = Len(Rec) \/ Say("REJECT", "lines", TLCGet("stats").diameter - 1, Len(Rec))
=============================================================================
