------------------------------ MODULE TraceLsm ------------------------------
(***************************************************************************)
(* Trace validation of executions recorded from the real tree (harness     *)
(* `replay` / `drive`).  One ndjson line per step:                         *)
(*   op    the API call and its arguments                                  *)
(*   ret   "ok" | "err:.." | "panic:.." | "skip:.."                        *)
(*   info  what the hooks reported (real table ids, compaction choice)     *)
(*   st    full projection of the real state after the step                *)
(*   obs   observations made after the step (reads, scans, marks)          *)
(*                                                                         *)
(* For every line TLC                                                      *)
(*  (1) advances the Layer A ghost by the operation (LsmAbstract),         *)
(*  (2) evaluates every property predicate (LsmProps) on the recorded real *)
(*      state and the recorded observations    -> lines "VIOL"             *)
(*  (3) checks that the recorded state is the one the Layer B operator     *)
(*      (LsmOps) computes from the previous recorded state -> lines "DRIFT"*)
(* and never stops early: every line is examined.  The run is accepted by  *)
(* the POSTCONDITION when all lines were consumed.                         *)
(***************************************************************************)
EXTENDS LsmProps, LsmBlob, LsmFifo, Json, IOUtils

Rec == ndJsonDeserialize(IOEnv.TRACE)
NKeys == atoi(IOEnv.NKEYS)
KeysT == 1..NKeys

VARIABLES l, A, C,    \* C: configuration of the current behaviour (from its reset line)
          P,        \* the ghost before the latest state-changing line (crash / fault images)
          F         \* C16: [on, g] - g is the ghost the failed call would have produced

-----------------------------------------------------------------------------
(* recorded state -> Layer B state record                                  *)
(***************************************************************************)
ById(seq, id) == CHOOSE x \in Range(seq) : x.id = id
Ids(seq) == {seq[i].id : i \in 1..Len(seq)}

StOf(r) ==
    [seq |-> r.seq, vis |-> r.vis, memId |-> r.memId, tblId |-> r.tblId,
     mem  |-> [m \in Ids(r.mems) |-> Range(ById(r.mems, m).e)],
     tbl  |-> [t \in Ids(r.tbls) |-> [e |-> ById(r.tbls, t).e, g |-> ById(r.tbls, t).g]],
     hist |-> [i \in 1..Len(r.hist) |->
                 [s |-> r.hist[i].s, vid |-> r.hist[i].vid, act |-> r.hist[i].act,
                  sealed |-> r.hist[i].sealed, lv |-> r.hist[i].lv]],
     snaps |-> Range(r.snaps)]

Say(kind, prop, i, what) == PrintT(ToJson(<<kind, prop, i, what>>))

\* A recorded state the predicates can be evaluated on: every listed table was dumped, is
\* readable and non-empty, and holds only keys / values of the behaviour's alphabet.
\* Anything else means the tree handed out data that was never written.
WellFormed(rst) ==
    /\ \A j \in 1..Len(rst.tbls) :
          LET x == rst.tbls[j] IN
          /\ x.err = "" /\ x.e # <<>>
          /\ \A q \in 1..Len(x.e) : x.e[q].k \in 1..NKeys /\ x.e[q].v >= 0 /\ x.e[q].s >= 0
    /\ \A j \in 1..Len(rst.mems) :
          \A q \in 1..Len(rst.mems[j].e) : rst.mems[j].e[q].k \in 1..NKeys /\ rst.mems[j].e[q].v >= 0
    /\ \A h \in 1..Len(rst.hist) :
          /\ Len(rst.hist[h].lv) = NLevels
          /\ \A lvl \in 1..NLevels : \A run \in Range(rst.hist[h].lv[lvl]) :
                run # <<>> /\ Range(run) \subseteq Ids(rst.tbls)
          /\ {rst.hist[h].act} \cup Range(rst.hist[h].sealed) \subseteq Ids(rst.mems)

IsOk(r) == r.ret = "ok"
\* operations that go through the compaction worker (the hook reports the choice made)
CompactOps == {"compact", "major", "leveled", "movedown", "pulldown", "fifo"}
\* read-only lines (scans) do not repeat the state: the state of line i is the one
\* recorded by the closest earlier line that is not read-only (at most 12 lines back)
\* (lines inserted by the crash / fault drivers say how many lines back it is: "pb")
StIdx(i) ==
    IF ~Rec[i].ro THEN i
    ELSE IF "pb" \in DOMAIN Rec[i] THEN i - Rec[i].pb
    ELSE Max({j \in (IF i > 12 THEN i - 12 ELSE 1)..i : ~Rec[j].ro})
Pre(i)  == StOf(Rec[StIdx(i - 1)].st)      \* only used when line i is not a reset
Post(i) == StOf(Rec[StIdx(i)].st)

-----------------------------------------------------------------------------
(* ghost step                                                              *)
(***************************************************************************)
WriteEntries(r) ==
    {[k |-> r.op.items[j].k, s |-> r.info.s, t |-> r.op.items[j].t, v |-> r.op.items[j].v]
        : j \in 1..Len(r.op.items)}

\* "writes": two writers racing - consecutive seqnos in item order, inserted into the memtable
\* in reverse order, published together
WritesEntries(r) ==
    {[k |-> r.op.items[j].k, s |-> r.info.s + j - 1, t |-> r.op.items[j].t, v |-> r.op.items[j].v]
        : j \in 1..Len(r.op.items)}
RECURSIVE WritesFold(_, _, _)
WritesFold(st, items, j) ==
    IF j > Len(items) THEN st
    ELSE WritesFold(OpWrite(st, {[k |-> items[j].k, t |-> items[j].t, v |-> items[j].v]}), items, j + 1)

PreWF(i) == WellFormed(Rec[StIdx(i - 1)].st)

\* the filter function of a merge step (rule table of the behaviour over the merge input)
BigOf(cfg) == IF cfg.sep.on THEN cfg.sep.big ELSE {}
StepFilter(i, cfg) ==
    LET r == Rec[i] IN
    FilterFn(cfg.rules, BigOf(cfg), MergeInput(Pre(i), {r.info.choice[j] : j \in 4..Len(r.info.choice)}))

\* C17: effects of the verdicts on the entries the real filter object was shown
FilterEffects(i, cfg) ==
    LET r == Rec[i] IN
    IF cfg.rules = <<>> \/ "choice" \notin DOMAIN r.info \/ r.info.choice[1] # 1
       \/ "shown" \notin DOMAIN r.info \/ ~PreWF(i) THEN {}
    ELSE LET pre   == Pre(i)
             input == MergeInput(pre, {r.info.choice[j] : j \in 4..Len(r.info.choice)})
             seen  == {e \in Range(input) : ~IsTomb(e) /\ <<e.k, e.v>> \in Range(r.info.shown)}
             vd(e) == RuleVerdict(cfg.rules, BigOf(cfg), e.k, e.v)
         IN {[k |-> e.k, s |-> e.s, c |-> pre.seq,
              t |-> IF vd(e).kind = "drop" THEN "D" ELSE IF vd(e).t = "I" THEN "V" ELSE vd(e).t,
              v |-> IF vd(e).kind = "drop" THEN NoVal ELSE vd(e).v]
                : e \in {x \in seen : vd(x).kind # "keep"}}

\* keys hit by a listed known finding in step i (KnownFindings.tla)
StepHazard(i) ==
    LET r == Rec[i] IN
    IF ~PreWF(i) THEN {} ELSE
    IF r.op.op = "flush" THEN FlushHazard(Pre(i), r.op.w)
    ELSE IF r.op.op \in CompactOps /\ "choice" \in DOMAIN r.info /\ r.info.choice[1] = 1
    THEN MergeHazard(Pre(i), {r.info.choice[j] : j \in 4..Len(r.info.choice)}, r.op.w)
    ELSE {}

\* the ghost step of line i as if the call had succeeded
GhostStepForced(a, i, cfg) ==
    LET r == Rec[i] IN
    CASE r.op.op = "reset"  -> AInit
      [] r.op.op = "write"  -> AWrite(a, WriteEntries(r))
      [] r.op.op = "writes" -> AWrite(a, WritesEntries(r))
      [] r.op.op = "rotate" -> ARotate(a)
      [] r.op.op = "flush"  -> AHazard(AFlush(a), StepHazard(i))
      [] r.op.op = "fifo" ->
            \* whatever FIFO dropped is gone for later snapshots (like drop_range)
            IF "choice" \in DOMAIN r.info /\ r.info.choice[1] = 3 /\ PreWF(i)
            THEN ADropRange(a, UNION {TKeys(Pre(i).tbl[t]) : t \in {r.info.choice[j] : j \in 4..Len(r.info.choice)}},
                            r.info.s0)
            ELSE a
      [] r.op.op \in CompactOps -> AFilter(AHazard(a, StepHazard(i)), FilterEffects(i, cfg))
      [] r.op.op = "reopen" -> AReopen(a)
      \* forced schedules (harness conc): one critical section of one thread per line
      [] r.op.op = "cstep" ->
            CASE r.op.step = "write" /\ r.op.p = "w" ->
                    AWrite(a, {[k |-> r.op.arg.k,
                                s |-> IF "s" \in DOMAIN r.info THEN r.info.s ELSE Rec[StIdx(i - 1)].st.seq,
                                t |-> r.op.arg.t, v |-> r.op.arg.v]})
              [] r.op.step = "rotate"   -> ARotate(a)
              [] r.op.step = "register" -> AFlush(a)
              [] r.op.step = "clear"    -> AClear(a, Rec[StIdx(i - 1)].st.seq)
              [] r.op.step = "droprange" -> ADropRange(a, KeysT, Rec[StIdx(i - 1)].st.seq)
              [] OTHER -> a
      [] r.op.op = "clear"  -> AClear(a, r.info.s0)
      [] r.op.op = "droprange" ->
            LET b == [lo |-> r.op.lo, hi |-> r.op.hi] IN
            IF DropRangeNoop(b) THEN a
            ELSE ADropRange(a, {k \in KeysT : InBounds(k, b)}, r.info.s0)
      [] r.op.op = "ingest" ->
            \* the global seqno: reported by the harness, or (failed call) the counter before the
            \* call plus the seqno the flush of pending memtables takes
            LET g == IF "g" \in DOMAIN r.info THEN r.info.g
                     ELSE IF ~PreWF(i) THEN r.info.s0
                     ELSE LET pre == Pre(i) sv == Latest(pre) IN
                          r.info.s0 + (IF pre.mem[sv.act] # {} \/ sv.sealed # <<>> THEN 1 ELSE 0)
            IN AIngest(a, {[k |-> r.op.items[j].k, s |-> g, t |-> r.op.items[j].t,
                            v |-> r.op.items[j].v] : j \in 1..Len(r.op.items)})
      [] OTHER -> a

GhostStep(a, i, cfg) == IF ~IsOk(Rec[i]) THEN a ELSE GhostStepForced(a, i, cfg)

-----------------------------------------------------------------------------
(* conformance: the Layer B operator applied to the previous recorded state*)
(***************************************************************************)
ChoiceIds(r) == {r.info.choice[j] : j \in 4..Len(r.info.choice)}
ChoiceKind(r) == r.info.choice[1]     \* 0 nothing, 1 merge, 2 move, 3 drop
ChoiceDest(r) == r.info.choice[2]

\* tables created by step i, ascending id
NewTables(i) ==
    LET pre == Pre(i) post == Post(i)
    IN SetToSortSeq({t \in DOMAIN post.tbl : t >= pre.tblId}, <)

Concat(ss) == FlattenSeq(ss)

MergeExpected(i, w) ==
    LET r == Rec[i] pre == Pre(i) post == Post(i)
        new == NewTables(i)
        pieces == [j \in 1..Len(new) |-> post.tbl[new[j]].e]
    IN OpMergeWith(pre, ChoiceIds(r), ChoiceDest(r), pieces, w)

\* the recorded output tables are a legal cut of what the merge stream emits
MergeOutputOk(i, w, cfg) ==
    LET r == Rec[i] pre == Pre(i) post == Post(i)
        new == NewTables(i)
        out == MergeOutput(pre, ChoiceIds(r), ChoiceDest(r), w, StepFilter(i, cfg)).out
    IN /\ Concat([j \in 1..Len(new) |-> post.tbl[new[j]].e]) = out
       /\ \A j \in 1..Len(new) : post.tbl[new[j]].e # <<>> /\ post.tbl[new[j]].g = 0
       /\ \A j \in 1..Len(new) - 1 :
             TMaxKey(post.tbl[new[j]]) < TMinKey(post.tbl[new[j+1]])

\* a flush may cut its output into several tables (64 MiB target): the recorded cut is taken
\* over, the content is compared separately
FlushExpected(i, cfg) ==
    LET pre == Pre(i) post == Post(i)
        new == NewTables(i)
    IN OpFlushWith(pre, Rec[i].op.w, [j \in 1..Len(new) |-> post.tbl[new[j]].e])
FlushOutputOk(i, cfg) ==
    LET pre == Pre(i) post == Post(i)
        new == NewTables(i)
    IN Latest(pre).sealed = <<>> \/
       /\ Concat([j \in 1..Len(new) |-> post.tbl[new[j]].e]) = Separate(cfg.sep, FlushOutput(pre, Rec[i].op.w))
       /\ \A j \in 1..Len(new) - 1 : TMaxKey(post.tbl[new[j]]) < TMinKey(post.tbl[new[j+1]])

\* what the real filter was shown equals what the transcribed stream shows its filter
ShownOk(i, cfg) ==
    LET r == Rec[i]
        m == MergeOutput(Pre(i), ChoiceIds(r), ChoiceDest(r), r.op.w, StepFilter(i, cfg)).shown
    IN [j \in 1..Len(m) |-> <<m[j].k, m[j].v>>] = r.info.shown

CompactExpected(i) ==
    LET r == Rec[i] pre == Pre(i) w == r.op.w IN
    IF "choice" \notin DOMAIN r.info THEN pre
    ELSE CASE ChoiceKind(r) = 0 -> pre
           [] ChoiceKind(r) = 1 -> MergeExpected(i, w)
           [] ChoiceKind(r) = 2 -> OpMove(pre, ChoiceIds(r), ChoiceDest(r), w)
           [] ChoiceKind(r) = 3 -> OpDrop(pre, ChoiceIds(r), w)

Expected(i, cfg) ==
    LET r == Rec[i] pre == Pre(i) IN
    CASE r.op.op = "write"   -> OpWrite(pre, {[k |-> r.op.items[j].k, t |-> r.op.items[j].t,
                                               v |-> r.op.items[j].v] : j \in 1..Len(r.op.items)})
      [] r.op.op = "writes"  -> WritesFold(pre, r.op.items, 1)
      [] r.op.op = "rotate"  -> OpRotate(pre)
      [] r.op.op = "flush"   -> FlushExpected(i, cfg)
      [] r.op.op \in CompactOps -> CompactExpected(i)
      [] r.op.op = "reopen"  -> OpReopen(pre)
      [] r.op.op = "clear"   -> OpClear(pre)
      [] r.op.op = "droprange" -> OpDropRange(pre, [lo |-> r.op.lo, hi |-> r.op.hi])
      [] r.op.op = "ingest"  -> OpIngestSep(pre, r.op.items, cfg.sep)
      [] r.op.op = "snap"    -> OpOpenSnap(pre)
      [] r.op.op = "release" -> OpReleaseSnap(pre, r.op.S)
      [] OTHER -> pre

\* which fields of two states differ (diagnostics)
DiffFields(a, b) == {f \in DOMAIN a : a[f] # b[f]}

\* the choice a strategy made must be one the worker can soundly execute
ChoiceLegal(i) ==
    LET r == Rec[i] pre == Pre(i) IN
    IF "choice" \notin DOMAIN r.info THEN TRUE
    ELSE CASE ChoiceKind(r) = 1 -> LegalMerge(pre, ChoiceIds(r), ChoiceDest(r))
           [] ChoiceKind(r) = 2 -> ChoiceIds(r) = {} \/ LegalMove(pre, ChoiceIds(r), ChoiceDest(r))
           [] OTHER -> TRUE

-----------------------------------------------------------------------------
(* property predicates on the recorded state and observations              *)
(***************************************************************************)
ObsGetOk(r, a) ==
    \A j \in 1..Len(r.obs.get) :
        LET S == r.obs.get[j].S L == LiveAt(a, S) IN
        \A k \in KeysT : DefinedL(a, L, k, S) => r.obs.get[j].v[k] = OracleL(L, k, S)

\* Forced schedules: reads hit by the known finding C06-late-insert (KnownFindings.tla) are
\* reported as KNOWN, everything else as usual.  lk(S) = the keys the signature marks at S.
LateKeysAt(r, S) == IF WellFormed(r.st) THEN LateInsertKeys(StOf(r.st), S) ELSE {}
ObsGetOkConc(r, a) ==
    \A j \in 1..Len(r.obs.get) :
        LET S == r.obs.get[j].S L == LiveAt(a, S) lk == LateKeysAt(r, S) IN
        \A k \in KeysT \ lk : DefinedL(a, L, k, S) => r.obs.get[j].v[k] = OracleL(L, k, S)
LateHit(r, a) ==
    {<<k, r.obs.get[j].S>> : k \in KeysT, j \in 1..Len(r.obs.get)} \cap
    {p \in KeysT \X {r.obs.get[j].S : j \in 1..Len(r.obs.get)} :
        /\ p[1] \in LateKeysAt(r, p[2])
        /\ \E j \in 1..Len(r.obs.get) :
              r.obs.get[j].S = p[2] /\ Defined(a, p[1], p[2]) /\ r.obs.get[j].v[p[1]] # Oracle(a, p[1], p[2])}
ObsScanOkConc(r, a) ==
    \A j \in 1..Len(r.obs.scan) :
        LET S == r.obs.scan[j].S L == LiveAt(a, S) lk == LateKeysAt(r, S)
            flt(sq) == SelectSeq(sq, LAMBDA p : p[1] \notin lk) IN
        flt(OnlyDefinedL(r.obs.scan[j].r, a, L, S)) = flt(OnlyDefinedL(ScanOf(L, S, FullBounds), a, L, S))

ObsScanOk(r, a) ==
    \A j \in 1..Len(r.obs.scan) :
        LET S == r.obs.scan[j].S L == LiveAt(a, S) IN
        OnlyDefinedL(r.obs.scan[j].r, a, L, S) = OnlyDefinedL(ScanOf(L, S, FullBounds), a, L, S)

\* consumption order of a double-ended scan: pat is a sequence of "F" / "B", applied cyclically
RECURSIVE Consume(_, _, _)
Consume(lst, pat, i) ==
    IF lst = <<>> THEN <<>>
    ELSE IF pat[((i - 1) % Len(pat)) + 1] = "B"
         THEN <<lst[Len(lst)]>> \o Consume(SubSeq(lst, 1, Len(lst) - 1), pat, i + 1)
         ELSE <<Head(lst)>> \o Consume(Tail(lst), pat, i + 1)

\* C03: a scan with bounds / prefix / overlay / any next-next_back interleaving
OverlayEntries(r) ==
    IF "overlay" \notin DOMAIN r.op THEN {}
    ELSE {[k |-> r.op.overlay[j].k, s |-> 2000000 + j - 1, t |-> r.op.overlay[j].t,
           v |-> r.op.overlay[j].v] : j \in 1..Len(r.op.overlay)}

ScanExpected(r, a) ==
    LET S    == r.op.S
        base == {e \in LiveAt(a, S) : e.s < S} \cup OverlayEntries(r)
        b    == IF "pk" \in DOMAIN r.info THEN FullBounds ELSE [lo |-> r.op.lo, hi |-> r.op.hi]
        full == ScanOf(base, 3 * Top, b)
        sel  == IF "pk" \in DOMAIN r.info
                THEN SelectSeq(full, LAMBDA p : p[1] \in Range(r.info.pk)) ELSE full
    IN Consume(OnlyDefined(sel, a, S), r.op.pat, 1)

ScanLineOk(r, a) ==
    /\ r.info.tail_ok
    /\ OnlyDefined(r.info.res, a, r.op.S) = ScanExpected(r, a)

\* first_key_value / last_key_value / len / is_empty agree with the same model
ScanExtrasOk(r, a) ==
    \A j \in 1..Len(r.obs.scan) :
        LET S == r.obs.scan[j].S
            o == OracleScan(a, S, FullBounds)
            x == r.obs.scan[j].x IN
        (\A p \in Range(o) : Defined(a, p[1], S)) =>
            /\ x.len = Len(o)
            /\ x.empty = (o = <<>>)
            /\ x.first = (IF o = <<>> THEN 0 ELSE o[1][1])
            /\ x.last = (IF o = <<>> THEN 0 ELSE o[Len(o)][1])

\* C19: what a FIFO compaction dropped.  L0 tables of the previous recorded state with
\* their creation time and size; D = the dropped set reported by the worker hook
FifoOk(i) ==
    LET r    == Rec[i]
        prs  == Rec[StIdx(i - 1)].st
        l0   == UNION {Range(run) : run \in Range(prs.hist[Len(prs.hist)].lv[1])}
        cr(t) == ById(prs.tbls, t).meta.created
        D    == IF "choice" \in DOMAIN r.info /\ r.info.choice[1] = 3
                THEN {r.info.choice[j] : j \in 4..Len(r.info.choice)} ELSE {}
        hasTtl == "ttl" \in DOMAIN r.op /\ r.op.ttl > 0
        expired(t) == hasTtl /\ r.info.now >= r.op.ttl /\ cr(t) <= r.info.now - r.op.ttl
    IN /\ D \subseteq l0
       \* no removed table is newer than a retained one unless it exceeded the TTL
       /\ \A d \in D : \A x \in l0 \ D : cr(d) <= cr(x) \/ expired(d)
       \* nothing is removed while the tree is within its size limit and TTL
       /\ (r.info.size <= r.info.limit /\ \A t \in l0 : ~expired(t)) => D = {}

\* C19 conformance: the real strategy chose what the transcribed one (LsmFifo!FifoChoose)
\* chooses on the recorded L0 tables (creation times in clock seconds)
FifoConforms(i) ==
    LET r    == Rec[i]
        prs  == Rec[StIdx(i - 1)].st
        sv   == prs.hist[Len(prs.hist)]
        flat == FlattenSeq(sv.lv[1])
        tsq  == [j \in 1..Len(flat) |->
                   LET m == ById(prs.tbls, flat[j]).meta IN
                   [id |-> flat[j], created |-> m.created, size |-> m.size, bb |-> m.bbytes]]
        D    == IF "choice" \in DOMAIN r.info /\ r.info.choice[1] = 3
                THEN {r.info.choice[j] : j \in 4..Len(r.info.choice)} ELSE {}
        ttl  == IF "ttl" \in DOMAIN r.op THEN r.op.ttl ELSE 0
    IN D = FifoChoose(tsq, r.info.size, r.info.limit, ttl, r.info.now)

\* the model's read algorithm on the recorded structure agrees with the real read
ModelReadAgrees(r) ==
    LET st == StOf(r.st) IN
    \A j \in 1..Len(r.obs.get) :
        \A k \in KeysT : r.obs.get[j].v[k] = ReadAt(st, k, r.obs.get[j].S)

\* C07: recorded metadata equals recorded contents
MetaOk(r) ==
    \A j \in 1..Len(r.tbls) :
        LET x == r.tbls[j] tb == [e |-> x.e, g |-> x.g] IN
        /\ x.err = ""
        /\ x.e # <<>>
        /\ x.meta.min = TMinKey(tb) /\ x.meta.max = TMaxKey(tb)
        /\ x.meta.lo = TMinSeq(tb) /\ x.meta.hi = TMaxSeq(tb)
        /\ x.meta.n = Len(x.e)
        /\ x.meta.tomb = Cardinality({q \in 1..Len(x.e) : x.e[q].t \in {"T", "W"}})
        /\ x.meta.wtomb = Cardinality({q \in 1..Len(x.e) : x.e[q].t = "W"})

\* C18: reported marks equal what is stored (self-consistency on the recorded state)
HiOk(r) ==
    LET st == StOf(r.st) IN
    /\ r.obs.hi.pers = HiPersisted(st)
    /\ r.obs.hi.mem = HiMemtable(st)
    /\ r.obs.hi.all = MaxNat(HiPersisted(st) + 1, HiMemtable(st) + 1) - 1

\* a read of a hazard key differs from what the ordered map (ignoring haz) would return
KnownHit(r, a) ==
    {k \in KeysT \cap a.haz : \E j \in 1..Len(r.obs.get) :
        LET S == r.obs.get[j].S b == [a EXCEPT !.haz = {}] IN
        Defined(b, k, S) /\ r.obs.get[j].v[k] # Oracle(b, k, S)}

-----------------------------------------------------------------------------
(* key-value separation: predicates on the recorded blob state             *)
(***************************************************************************)
\* pointers <<k, s, bf, off, dsz, sz>> of the tables of a version
PtrsOf(rst, sv) ==
    UNION {Range(ById(rst.tbls, t).ptrs) : t \in AllIds(sv.lv)}

\* blobs <<k, s, off, ulen, dlen>> of blob file f that no table of the version points to
GarbageOf(rst, sv, f) ==
    LET used == {p[4] : p \in {q \in PtrsOf(rst, sv) : q[3] = f}}
    IN {b \in Range(ById(rst.bfs, f).blobs) : b[3] \notin used}

SumOf(S, idx) == LET RECURSIVE Sm(_) Sm(T) == IF T = {} THEN 0 ELSE LET x == CHOOSE y \in T : TRUE IN x[idx] + Sm(T \ {x}) IN Sm(S)

GcEntry(sv, f) ==
    LET es == {g \in Range(sv.gc) : g[1] = f}
    IN IF es = {} THEN <<f, 0, 0, 0>> ELSE CHOOSE g \in es : TRUE

\* C09: the garbage recorded for every blob file of the version equals the blobs of that
\* file no table of the version points to (count, bytes, on-disk bytes)
GcExact(rst) ==
    LET sv == rst.hist[Len(rst.hist)] IN
    \A f \in Range(sv.blobs) :
        LET g == GarbageOf(rst, sv, f) e == GcEntry(sv, f) IN
        /\ e[2] = Cardinality(g)
        /\ e[3] = SumOf(g, 4)
        /\ e[4] = SumOf(g, 5)

\* C09: stale_blob_bytes reports the sum
StaleIsSum(r) ==
    LET sv == r.st.hist[Len(r.st.hist)] IN
    r.obs.stale_blob_bytes = SumOf(Range(sv.gc), 4)

\* C08/C09: every pointer of the newest version points into a blob file the version lists,
\* whose file exists and holds a blob of that key / seqno at that offset
PointersPresent(rst) ==
    LET sv == rst.hist[Len(rst.hist)] IN
    \A p \in PtrsOf(rst, sv) :
        /\ p[3] \in Range(sv.blobs)
        /\ p[3] \in Ids(rst.bfs)
        /\ ById(rst.bfs, p[3]).exists /\ ById(rst.bfs, p[3]).err = ""
        /\ \E b \in Range(ById(rst.bfs, p[3]).blobs) : b[3] = p[4] /\ b[1] = p[1]

\* C08: no retained version holds a pointer that fails to resolve
NoDangling(rst) == \A i \in 1..Len(rst.hist) : rst.hist[i].dangling = <<>>

\* C09: links recorded in a table equal the pointers it holds
LinksExact(rst) ==
    \A j \in 1..Len(rst.tbls) :
        LET x == rst.tbls[j]
            fs == {p[3] : p \in Range(x.ptrs)} IN
        /\ {lk[1] : lk \in Range(x.links)} = fs
        /\ \A lk \in Range(x.links) :
              LET ps == {p \in Range(x.ptrs) : p[3] = lk[1]} IN
              lk[2] = Cardinality(ps) /\ lk[3] = SumOf(ps, 6) /\ lk[4] = SumOf(ps, 5)

\* C09: a blob file nothing pointed into before a merge / drop commit is gone after it
DeadDropped(i) ==
    LET r == Rec[i] pre == Rec[StIdx(i - 1)].st post == r.st
        svp == pre.hist[Len(pre.hist)] svq == post.hist[Len(post.hist)] IN
    r.op.op \in CompactOps /\ "choice" \in DOMAIN r.info /\ r.info.choice[1] \in {1, 3}
      /\ svq.vid # svp.vid =>
        \A f \in Range(svp.blobs) :
            (GcEntry(svp, f)[3] = ById(pre.bfs, f).bytes /\ ById(pre.bfs, f).n > 0)
                => f \notin Range(svq.blobs)

\* conformance of the blob layer (spec/LsmBlob.tla): the blob file list and the fragmentation
\* map after a merge / drop commit are what the transition rules compute from the previous
\* recorded state
GcFn(sv) == [f \in {g[1] : g \in Range(sv.gc)} |->
                LET g == CHOOSE x \in Range(sv.gc) : x[1] = f IN <<g[2], g[3], g[4]>>]
BfFn(rst) == [f \in Ids(rst.bfs) |-> [n |-> ById(rst.bfs, f).n, bytes |-> ById(rst.bfs, f).bytes]]
LinkedOf(rst, ids) == {lk[1] : lk \in UNION {Range(ById(rst.tbls, t).links) : t \in ids}}

BlobExpected(i, cfg) ==
    LET r    == Rec[i]
        prs  == Rec[StIdx(i - 1)].st
        svp  == prs.hist[Len(prs.hist)]
        blobs == Range(svp.blobs)
        gc   == GcFn(svp)
        bf   == BfFn(prs)
        post == r.st.hist[Len(r.st.hist)]
        same == [blobs |-> blobs, gc |-> gc]
    IN IF r.op.op \in {"flush", "ingest"} THEN
           [blobs |-> blobs \cup (Range(post.blobs) \ blobs), gc |-> gc]
       ELSE IF r.op.op \notin (CompactOps \cup {"droprange"}) \/ "choice" \notin DOMAIN r.info THEN same
       ELSE IF r.info.choice[1] = 1 THEN
           LET ids   == ChoiceIds(r)
               pre   == Pre(i)
               dr    == MergeOutput(pre, ids, ChoiceDest(r), r.op.w, StepFilter(i, cfg)).dropped
               \* pointers of the dropped Indirection entries (effective seqno = stored + g)
               ptrs  == UNION {{<<p[1], p[2] + ById(prs.tbls, t).g, p[3], p[4], p[5], p[6]>>
                                  : p \in Range(ById(prs.tbls, t).ptrs)} : t \in ids}
               dropped == {p \in ptrs : \E j \in 1..Len(dr) :
                              dr[j].t = "I" /\ dr[j].k = p[1] /\ dr[j].s = p[2]}
               others == AllIds(svp.lv) \ ids
               rew   == PickRewrite(bf, gc, LinkedOf(prs, ids), LinkedOf(prs, others),
                                    cfg.bcfg.stale, 1000000, cfg.bcfg.cutoff, 1000000)
               newF  == Range(post.blobs) \ blobs
           IN IF post.vid = svp.vid THEN same
              ELSE MergeBlobs(blobs, gc, bf, rew, newF, DiffOf(dropped))
       ELSE IF r.info.choice[1] = 3 THEN
           LET ids == ChoiceIds(r)
               links == UNION {{<<x[1], x[2], x[3], x[4], t>> : x \in Range(ById(prs.tbls, t).links)} : t \in ids}
           IN IF post.vid = svp.vid THEN same
              ELSE DropBlobs(blobs, gc, bf, links, ids # {})
       ELSE same

BlobConforms(i, cfg) ==
    LET r == Rec[i] post == r.st.hist[Len(r.st.hist)] e == BlobExpected(i, cfg) IN
    r.op.op \in {"reopen", "reset", "clear"}
    \/ (Range(post.blobs) = e.blobs /\ GcFn(post) = e.gc)

\* C09: the map holds no entry for a blob file the version does not list - except for files
\* that left the version through a wholesale drop (with_dropped keeps their entries; pinned
\* by the repository's blob_tree_nuke_gc_stats test).  bd: ids dropped that way so far.
GcDomainOk(rst, bd) ==
    LET sv == rst.hist[Len(rst.hist)] IN
    {g[1] : g \in Range(sv.gc)} \subseteq Range(sv.blobs) \cup bd

\* blob file ids that left the version through a drop at line i (drop_range, FIFO, Choice::Drop)
BdNext(bd, i) ==
    LET r == Rec[i] IN
    IF r.op.op = "reset" \/ r.ro \/ r.ret # "ok" \/ ~WellFormed(r.st) \/ ~PreWF(i) THEN bd
    ELSE IF "choice" \in DOMAIN r.info /\ r.info.choice[1] = 3
         THEN LET prs == Rec[StIdx(i - 1)].st IN
              bd \cup (Range(prs.hist[Len(prs.hist)].blobs) \ Range(r.st.hist[Len(r.st.hist)].blobs))
         ELSE bd

BlobChecks(i, r, cfg) ==
    /\ (NoDangling(r.st)      \/ Say("VIOL", "DANGLE", i, [h \in 1..Len(r.st.hist) |-> r.st.hist[h].dangling]))
    /\ (PointersPresent(r.st) \/ Say("VIOL", "PTR", i, r.st.bfs))
    /\ (GcExact(r.st)         \/ Say("VIOL", "GC", i, <<r.st.hist[Len(r.st.hist)].gc, r.st.bfs>>))
    /\ (GcDomainOk(r.st, cfg.bd) \/ Say("VIOL", "GC", i, <<r.st.hist[Len(r.st.hist)].gc, r.st.hist[Len(r.st.hist)].blobs, cfg.bd>>))
    /\ (StaleIsSum(r)         \/ Say("VIOL", "STALE", i, r.obs.stale_blob_bytes))
    /\ (LinksExact(r.st)      \/ Say("VIOL", "LINKS", i, r.st.tbls))
    /\ (DeadDropped(i)        \/ Say("VIOL", "DEAD", i, r.st.hist[Len(r.st.hist)].blobs))



\* C20: every file a retained view needs exists; the newest version's file and the pointer exist
FilesLive(rst) ==
    /\ \A h \in 1..Len(rst.hist) :
          /\ AllIds(rst.hist[h].lv) \subseteq Range(rst.ls.tables)
          /\ Range(rst.hist[h].blobs) \subseteq Range(rst.ls.blobs)
    /\ rst.hist[Len(rst.hist)].vid \in Range(rst.ls.v)
    /\ "current" \in Range(rst.ls.other)

\* C20: once no older view is retained (after maintenance above all past version changes
\* with no reader, and always after a reopen) the directory holds exactly the files the
\* newest version names
DirClean(rst) ==
    Len(rst.hist) = 1 =>
        LET sv == rst.hist[1] IN
        /\ Range(rst.ls.tables) = AllIds(sv.lv)
        /\ Range(rst.ls.blobs) = Range(sv.blobs)
        /\ Range(rst.ls.v) = {sv.vid}
        /\ Range(rst.ls.other) = {"current"}

\* C05 / C16: a directory image taken while the operation of this line was in flight (or a
\* reopen after the operation failed) opens, and holds the durable content of the ghost
\* before or after the operation - all of it, never a mixture
ImageMatches(r, g) ==
    LET L == LiveDurable(g) IN
    /\ \A k \in KeysT : DefinedL(g, L, k, Top) => r.info.gets[k] = OracleL(L, k, Top)
    /\ OnlyDefinedL(r.info.scan, g, L, Top) = OnlyDefinedL(ScanOf(L, Top, FullBounds), g, L, Top)

\* (an ingestion first flushes the pending memtables - a version of its own - and then
\* registers the ingested table: a crash in between finds the state before the call with the
\* acknowledged writes flushed, which is the logical content before the call)
CrashOk(i, r, before, after) ==
    /\ r.info.open = "ok"
    /\ \/ ImageMatches(r, before) \/ ImageMatches(r, after)
       \/ /\ r.pb > 0 /\ Rec[i - r.pb].op.op = "ingest"
          /\ ImageMatches(r, AFlush(ARotate(before)))

\* C06: after every critical section of a forced schedule: every published version is
\* structurally sound and matches its tables' metadata, every needed file exists, and once
\* all threads are at rest nothing is hidden
ConcChecks(i, r) ==
    LET st == Post(i) IN
    /\ (PStructureSound(st) \/ Say("VIOL", "STRUCT", i, st.hist))
    /\ (MetaOk(r.st)        \/ Say("VIOL", "META", i, r.st.tbls))
    /\ (FilesLive(r.st)     \/ Say("VIOL", "FILES", i, r.st.ls))
    /\ (r.op.step # "rest" \/ r.st.hidden = <<>> \/ Say("VIOL", "HIDDENREST", i, r.st.hidden))

StateChecks(i, a, cfg) ==
    LET r == Rec[i] st == Post(i) IN
    /\ (FilesLive(r.st)         \/ Say("VIOL", "FILES", i, r.st.ls))
    /\ (DirClean(r.st)          \/ Say("VIOL", "DIRCLEAN", i, <<r.st.ls, r.st.hist[1].lv, r.st.hist[1].blobs>>))
    /\ (r.op.op # "fifo" \/ FifoOk(i) \/ Say("VIOL", "FIFO", i, r.info))
    /\ (r.op.op # "fifo" \/ FifoConforms(i) \/ Say("DRIFT", "fifo", i, r.info))
    /\ (PStructureSound(st)     \/ Say("VIOL", "STRUCT", i, st.hist))
    /\ (MetaOk(r.st)            \/ Say("VIOL", "META", i, r.st.tbls))
    /\ (HiOk(r)                 \/ Say("VIOL", "HI", i, r.obs.hi))
    /\ (PHiSound(st, a)         \/ Say("VIOL", "HIA", i, r.obs.hi))
    /\ (PNoInvention(st, a)     \/ Say("VIOL", "INVENT", i, StoredEntries(st) \ DurableEff(a)))
    /\ (PDurableKept(st, a, KeysT) \/ Say("VIOL", "LOST", i, Durable(a)))
    /\ (PSnapsResolve(st)       \/ Say("VIOL", "SNAPRES", i, st.snaps))
    /\ (ModelReadAgrees(r)      \/ Say("DRIFT", "read", i, r.obs.get))
    /\ (ChoiceLegal(i)          \/ Say("ILLEGAL", "choice", i, r.info))
    /\ (r.op.op \notin CompactOps \/ "choice" \notin DOMAIN r.info
          \/ ChoiceKind(r) # 1 \/ MergeOutputOk(i, r.op.w, cfg)
          \/ Say("DRIFT", "mergeout", i, r.info))
    /\ (r.op.op # "flush" \/ FlushOutputOk(i, cfg) \/ Say("DRIFT", "flushout", i, r.info))
    /\ (Expected(i, cfg) = st   \/ Say("DRIFT", "state", i, DiffFields(Expected(i, cfg), st)))
    /\ (~cfg.sep.on \/ BlobChecks(i, r, cfg))
    /\ (~cfg.sep.on \/ BlobConforms(i, cfg)
          \/ Say("DRIFT", "blob", i, <<r.st.hist[Len(r.st.hist)].blobs, r.st.hist[Len(r.st.hist)].gc,
                                       BlobExpected(i, cfg)>>))
    /\ (cfg.rules = <<>> \/ "shown" \notin DOMAIN r.info \/ "choice" \notin DOMAIN r.info
          \/ r.info.choice[1] # 1 \/ ShownOk(i, cfg) \/ Say("DRIFT", "shown", i, r.info.shown))

\* evaluate everything on line i with ghost a (already advanced); always TRUE
CheckLine(i, a, cfg, prev) ==
    LET r == Rec[i] IN
    IF r.op.op = "reset" THEN
        /\ (Post(i) = InitState \/ Say("DRIFT", "init", i, DiffFields(Post(i), InitState)))
    ELSE IF r.rk = "err" /\ cfg.fl # 0 /\ i = cfg.fb + cfg.fl - 1 THEN
        \* C16: the operation hit the injected I/O fault and returned an error: every read and
        \* scan (newest and held snapshots) is what it was before, nothing stays hidden, held
        \* snapshots still resolve
        /\ (ObsGetOk(r, a)  \/ Say("VIOL", "FAULTREAD", i, r.obs.get))
        /\ (ObsScanOk(r, a) \/ Say("VIOL", "FAULTREAD", i, r.obs.scan))
        /\ (r.st.hidden = <<>> \/ Say("VIOL", "FAULTHIDDEN", i, r.st.hidden))
        /\ (~WellFormed(r.st) \/ PSnapsResolve(Post(i)) \/ Say("VIOL", "SNAPRES", i, r.st.snaps))
    ELSE IF r.ret # "ok" THEN
        /\ (r.rk = "skip" \/ (r.rk = "panic" /\ cfg.fl # 0 /\ i = cfg.fb + cfg.fl - 1)
            \/ Say("VIOL", "OPFAIL", i, r.ret))
    ELSE IF r.ro /\ r.op.op = "nop" THEN TRUE
    ELSE IF r.ro /\ r.op.op = "crashimg" THEN
        /\ (CrashOk(i, r, prev, a) \/ Say("VIOL", "CRASH", i, r.info))
    ELSE IF r.ro THEN
        /\ (ScanLineOk(r, a) \/ Say("VIOL", "SCANX", i, <<r.op, r.info, ScanExpected(r, a)>>))
    ELSE
    \* predicates over the observations only
    /\ IF cfg.conc THEN
          /\ (ObsGetOkConc(r, a)  \/ Say("VIOL", "READ", i, r.obs.get))
          /\ (LateHit(r, a) = {}  \/ Say("KNOWN", "C06-late-insert", i, LateHit(r, a)))
          /\ (ObsScanOkConc(r, a) \/ Say("VIOL", "SCAN", i, r.obs.scan))
       ELSE
          /\ (ObsGetOk(r, a)          \/ Say("VIOL", "READ", i, r.obs.get))
          /\ (KnownHit(r, a) = {}     \/ Say("KNOWN", "C13-weak-shadow", i, KnownHit(r, a)))
          /\ (ObsScanOk(r, a)         \/ Say("VIOL", "SCAN", i, r.obs.scan))
          /\ (ScanExtrasOk(r, a)      \/ Say("VIOL", "SCANX", i, r.obs.scan))
    \* predicates over the recorded state
    /\ IF ~WellFormed(r.st) THEN Say("VIOL", "MALFORMED", i, r.st.tbls)
       ELSE IF r.op.op = "cstep" THEN ConcChecks(i, r)
       ELSE IF r.op.op # "reset" /\ ~PreWF(i) THEN TRUE
       ELSE StateChecks(i, a, cfg)

\* fl: line (within the behaviour, reset = 1) at which an I/O fault was injected (C16), fb: the
\* trace line of the behaviour's reset
CfgOf(r, at) == [sep |-> [on |-> r.op.blob, big |-> Range(r.op.big)], rules |-> r.op.filter,
                 fl |-> r.op.fault_line, fb |-> at, bcfg |-> r.op.bcfg,
                 conc |-> "conc" \in DOMAIN r.op, bd |-> {}]
Init == l = 0 /\ A = AInit /\ C = [sep |-> NoSep, rules |-> <<>>, fl |-> 0, fb |-> 0, bcfg |-> [thr |-> 0, target |-> 0, stale |-> 0, cutoff |-> 0], conc |-> FALSE, bd |-> {}] /\ P = AInit /\ F = [on |-> FALSE]

Next ==
    /\ l < Len(Rec)
    /\ l' = l + 1
    /\ C' = IF Rec[l + 1].op.op = "reset" THEN CfgOf(Rec[l + 1], l + 1)
            ELSE IF C.sep.on THEN [C EXCEPT !.bd = BdNext(@, l + 1)] ELSE C
    /\ LET r == Rec[l + 1]
           faultLine == C'.fl # 0 /\ l + 1 = C'.fb + C'.fl - 1 /\ r.rk = "err" /\ PreWF(l + 1)
           \* C16: a reopen right after the failed call (only snapshot releases in between) may
           \* find the state before or after it; the ghost follows what was found
           img == IF r.rk = "ok" /\ r.op.op = "reopen" /\ F.on
                  THEN [info |-> [gets |-> (CHOOSE g \in Range(r.obs.get) : g.S = Top).v,
                                  scan |-> (CHOOSE g \in Range(r.obs.scan) : g.S = Top).r]]
                  ELSE [info |-> [gets |-> <<>>, scan |-> <<>>]]
           fits(g) == ImageMatches(img, g)
                      /\ (~WellFormed(r.st) \/ PNoInvention(Post(l + 1), AReopen(g)))
           useAfter == r.rk = "ok" /\ r.op.op = "reopen" /\ F.on /\ ~fits(A) /\ fits(F.g)
       IN /\ A' = IF useAfter THEN AReopen(F.g) ELSE GhostStep(A, l + 1, C')
          /\ F' = IF faultLine THEN [on |-> TRUE, g |-> GhostStepForced(A, l + 1, C')]
                  ELSE IF r.op.op \in {"snap", "release", "scan"} \/ r.rk # "ok" THEN F
                  ELSE [on |-> FALSE]
    /\ P' = IF Rec[l + 1].ro THEN P ELSE A
    /\ CheckLine(l + 1, A', C', P')

Spec == Init /\ [][Next]_<<l, A, C, P, F>>

Accepted ==
    \/ TLCGet("stats").diameter - 1 = Len(Rec)
    \/ Say("REJECT", "lines", TLCGet("stats").diameter - 1, Len(Rec))

=============================================================================
