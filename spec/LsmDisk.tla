------------------------------ MODULE LsmDisk ------------------------------
(***************************************************************************)
(* Persistence model of the directory of one tree, driven by the sequence  *)
(* of file-system operations recorded (strace) from a real run:            *)
(*   mkdir, create, write(n bytes), fsync(file), fsync(dir), rename,       *)
(*   unlink, step (end of an API call).                                    *)
(* Volatile state is what the process sees; durable state is what a crash  *)
(* keeps:                                                                  *)
(*   - file data beyond the last fsync of the file may be lost or torn:    *)
(*     after a crash the file has any length between the durable and the   *)
(*     volatile one (explored: durable, halfway, volatile);                *)
(*   - a directory entry change (create, unlink, rename, mkdir) that was   *)
(*     not followed by an fsync of that directory may or may not have      *)
(*     reached the disk, independently of the others; rename is atomic.    *)
(* At every prefix of the operation sequence the Crash action enumerates   *)
(* every image this allows; each distinct image is printed, materialised   *)
(* by the driver from the recorded bytes and opened with the real          *)
(* Config::open (C05).  The same module states the ordering invariant the  *)
(* code's persist order is meant to guarantee (PointerIsBacked).           *)
(***************************************************************************)
EXTENDS Naturals, Sequences, FiniteSets, TLC, Json, IOUtils, SequencesExt, FiniteSetsExt

FsOps == ndJsonDeserialize(IOEnv.FSOPS)
\* op records (prepared by lib/fsrec.py): op, d (directory, "." = root), nm (name),
\* n (bytes written), td / tn (rename target), obj (object created)

VARIABLES i,        \* number of operations applied
          len,      \* object id -> [vol, dur] byte lengths
          ent,      \* directory -> [vol: set of <<name, obj>>, dur: set of <<name, obj>>,
                    \*               pend: Seq of pending entry changes]
          crashed, img

vars == <<i, len, ent, crashed, img>>

Dirs == {".", "tables", "blobs"}
NoDir == [vol |-> {}, dur |-> {}, pend |-> <<>>]

Init ==
    /\ i = 0
    /\ len = <<>>
    /\ ent = [d \in Dirs |-> NoDir]
    /\ crashed = FALSE
    /\ img = <<>>

Lookup(S, nm) == {p \in S : p[1] = nm}
Without(S, nm) == {p \in S : p[1] # nm}

\* apply one entry change to a set of <<name, obj>>
ApplyChange(S, c) ==
    CASE c.k = "add" -> Without(S, c.nm) \cup {<<c.nm, c.obj>>}
      [] c.k = "del" -> Without(S, c.nm)
      [] c.k = "mv"  -> Without(Without(S, c.nm), c.tn) \cup {<<c.tn, c.obj>>}

ObjOf(d, nm) == (CHOOSE p \in Lookup(ent[d].vol, nm) : TRUE)[2]

Step ==
    /\ ~crashed /\ i < Len(FsOps)
    /\ LET o == FsOps[i + 1] IN
       /\ i' = i + 1
       /\ CASE o.op = "create" ->
                 \* a fresh object (O_EXCL, or O_TRUNC over an old name) linked into d
                 /\ len' = (o.obj :> [vol |-> 0, dur |-> 0]) @@ len
                 /\ LET c == [k |-> "add", nm |-> o.nm, obj |-> o.obj] IN
                    ent' = [ent EXCEPT ![o.d] = [vol |-> ApplyChange(@.vol, c), dur |-> @.dur,
                                                 pend |-> Append(@.pend, c)]]
            [] o.op = "mkdir" ->
                 /\ len' = len
                 /\ LET c == [k |-> "add", nm |-> o.nm, obj |-> 0] IN
                    ent' = [ent EXCEPT ![o.d] = [vol |-> ApplyChange(@.vol, c), dur |-> @.dur,
                                                 pend |-> Append(@.pend, c)]]
            [] o.op = "write" ->
                 /\ len' = [len EXCEPT ![ObjOf(o.d, o.nm)].vol = @ + o.n]
                 /\ ent' = ent
            [] o.op = "fsync" ->
                 \* of a file: its data becomes durable
                 /\ len' = [len EXCEPT ![ObjOf(o.d, o.nm)].dur = len[ObjOf(o.d, o.nm)].vol]
                 /\ ent' = ent
            [] o.op = "fsyncdir" ->
                 /\ len' = len
                 /\ ent' = [ent EXCEPT ![o.d] = [vol |-> @.vol, dur |-> @.vol, pend |-> <<>>]]
            [] o.op = "rename" ->
                 /\ len' = len
                 /\ LET c == [k |-> "mv", nm |-> o.nm, tn |-> o.tn, obj |-> ObjOf(o.d, o.nm)] IN
                    ent' = [ent EXCEPT ![o.d] = [vol |-> ApplyChange(@.vol, c), dur |-> @.dur,
                                                 pend |-> Append(@.pend, c)]]
            [] o.op = "unlink" ->
                 /\ len' = len
                 /\ LET c == [k |-> "del", nm |-> o.nm] IN
                    ent' = [ent EXCEPT ![o.d] = [vol |-> ApplyChange(@.vol, c), dur |-> @.dur,
                                                 pend |-> Append(@.pend, c)]]
            [] OTHER -> len' = len /\ ent' = ent      \* "step" markers
       /\ UNCHANGED <<crashed, img>>

\* the entries of directory d after a crash that kept exactly the pending changes in `keep`
RECURSIVE Fold(_, _, _, _)
Fold(S, pend, keep, j) ==
    IF j > Len(pend) THEN S
    ELSE Fold(IF j \in keep THEN ApplyChange(S, pend[j]) ELSE S, pend, keep, j + 1)

CrashEntries(d, keep) == Fold(ent[d].dur, ent[d].pend, keep, 1)

LenChoices(o) ==
    LET l == len[o] IN
    IF l.vol = l.dur THEN {l.dur}
    ELSE {l.dur, l.vol} \cup (IF l.vol - l.dur >= 2 THEN {l.dur + (l.vol - l.dur) \div 2} ELSE {})

\* last completed API call (number of step markers passed)
StepNo == Cardinality({j \in 1..i : FsOps[j].op = "step"})

Crash ==
    /\ ~crashed
    /\ \E kr \in SUBSET (1..Len(ent["."].pend)),
          kt \in SUBSET (1..Len(ent["tables"].pend)),
          kb \in SUBSET (1..Len(ent["blobs"].pend)) :
         LET er == CrashEntries(".", kr)
             hasT == Lookup(er, "tables") # {}
             hasB == Lookup(er, "blobs") # {}
             et == IF hasT THEN CrashEntries("tables", kt) ELSE {}
             eb == IF hasB THEN CrashEntries("blobs", kb) ELSE {}
             files == {<<".", p[1], p[2]>> : p \in {q \in er : q[2] # 0}}
                      \cup {<<"tables", p[1], p[2]>> : p \in et}
                      \cup {<<"blobs", p[1], p[2]>> : p \in eb}
             objs == {f[3] : f \in files}
         IN /\ (hasT \/ kt = {}) /\ (hasB \/ kb = {})      \* canonical choice for absent dirs
            /\ LET torn == {o \in objs : len[o].vol # len[o].dur} IN
               \E t \in [torn -> UNION {LenChoices(o) : o \in torn}] :
                 /\ \A o \in torn : t[o] \in LenChoices(o)
                 /\ LET ln == [o \in objs |-> IF o \in torn THEN t[o] ELSE len[o].dur] IN
                    img' = [at |-> i, step |-> StepNo,
                            dirs |-> {"tables" : x \in {1} \cap (IF hasT THEN {1} ELSE {})}
                                     \cup {"blobs" : x \in {1} \cap (IF hasB THEN {1} ELSE {})},
                            files |-> {<<f[1], f[2], f[3], ln[f[3]]>> : f \in files}]
    /\ crashed' = TRUE
    /\ UNCHANGED <<i, len, ent>>

Next == Step \/ Crash
Spec == Init /\ [][Next]_vars

\* every crash image is printed once (one line of JSON)
PrintImage == crashed' /\ ~crashed => PrintT(<<"IMAGE", ToJson(img')>>)

-----------------------------------------------------------------------------
(* The ordering the persist path is meant to guarantee, checked on the     *)
(* recorded operation sequence itself: whenever the version pointer        *)
(* `current` is durably linked, its content is durably complete.  (That    *)
(* the version file it names and the files that one lists are durable too  *)
(* is decided by opening the images.)                                      *)
(***************************************************************************)
PointerIsBacked ==
    ~crashed =>
        \A p \in Lookup(ent["."].dur, "current") :
            len[p[2]].dur = len[p[2]].vol /\ len[p[2]].dur > 0
=============================================================================
