------------------------------ MODULE LsmTree ------------------------------
(***************************************************************************)
(* The sequential tree as a state machine.                                 *)
(*   st : Layer B state (LsmOps)                                           *)
(*   A  : Layer A ghost - the log of acknowledged writes and what of it is *)
(*        not yet flushed; the properties are stated against it            *)
(*   h  : the operations performed so far (replayed on the real tree)      *)
(***************************************************************************)
EXTENDS LsmProps

CONSTANTS Keys, Vals,        \* model keys / values (naturals >= 1)
          WeakKeys,          \* keys used under the single-delete discipline (C13)
          OnceKeys,          \* keys written at most once (targets of RemoveWeak / Destroy verdicts)
          FilterRules,       \* compaction filter rule table (<<>> = no filter), LsmCore!RuleVerdict
          BigVals,           \* values that reach the key-value separation threshold ({} = standard tree)
          MaxSeq,            \* bound on the seqno counter
          MaxSealed, MaxTables, MaxSnaps, MaxHist,
          DestLevels,        \* levels compactions may target
          Ops                \* enabled operation kinds (strings)

VARIABLES st, A, h

vars == <<st, A, h>>

Init == st = InitState /\ A = AInit /\ h = <<>>

Log(op) == h' = Append(h, op)

\* watermarks the protocol allows: none, or as high as possible - at most the oldest held
\* snapshot (a reader at S is served by the newest version / entry with seqno < S, which a
\* watermark of S keeps), one below it, or the visible seqno when no snapshot is held
\* (with no snapshot held a watermark above every seqno ever issued is legal too - the
\* repository's own tests pass 1_000 - and makes maintenance drop every older version)
WChoices ==
    {0} \cup (IF st.snaps = {} THEN {st.vis, Top}
             ELSE {Min(st.snaps)} \cup (IF Min(st.snaps) = 0 THEN {} ELSE {Min(st.snaps) - 1}))

\* the value written is a function of the seqno, so that an overwritten value always
\* differs from the one that replaced it without multiplying the branching
ValAt(s) == (CHOOSE f \in [0..Cardinality(Vals)-1 -> Vals] :
                \A i, j \in DOMAIN f : i < j => f[i] < f[j])[s % Cardinality(Vals)]

\* strong keys take inserts and deletes; weak keys follow the single-delete discipline:
\* insert only when absent-by-weak-delete or never written, remove_weak only directly
\* after an insert, never overwritten, never strongly deleted
WriteTypes(k) ==
    IF k \in OnceKeys THEN (IF \E r \in A.log : r.k = k THEN {} ELSE {"V"})
    ELSE IF k \notin WeakKeys THEN {"V", "T"}
    ELSE LET r == NewestIn(LiveAt(A, Top), k, Top)
         IN IF r = None \/ r.t = "W" THEN {"V"} ELSE {"W"}

Write ==
    /\ "write" \in Ops /\ st.seq < MaxSeq
    /\ \E k \in Keys : \E t \in WriteTypes(k) :
         LET it == [k |-> k, t |-> t, v |-> IF t = "V" THEN ValAt(st.seq) ELSE NoVal]
             e  == [k |-> k, s |-> st.seq, t |-> t, v |-> it.v] IN
         /\ st' = OpWrite(st, {it})
         /\ A' = AWrite(A, {e})
         /\ Log([op |-> "write", items |-> <<it>>])

Batch ==
    /\ "batch" \in Ops /\ st.seq < MaxSeq /\ Cardinality(Keys) >= 2
    /\ \E k1 \in Keys \ WeakKeys, k2 \in Keys \ WeakKeys, t1 \in {"V", "T"}, t2 \in {"V", "T"} :
         /\ k1 < k2
         /\ LET i1 == [k |-> k1, t |-> t1, v |-> IF t1 = "T" THEN NoVal ELSE Min(Vals)]
                i2 == [k |-> k2, t |-> t2, v |-> IF t2 = "T" THEN NoVal ELSE Max(Vals)]
                es == {[k |-> i.k, s |-> st.seq, t |-> i.t, v |-> i.v] : i \in {i1, i2}} IN
            /\ st' = OpWrite(st, {i1, i2})
            /\ A' = AWrite(A, es)
            /\ Log([op |-> "write", items |-> <<i1, i2>>])

\* two writers racing: seqnos s and s+1 are handed out in this order, the second writer's
\* insert reaches the memtable first, both are published together.  The memtable is a set,
\* so the effect is that of two writes; the code's cached per-memtable maximum must not
\* depend on the arrival order (C18)
WritePair ==
    /\ "pair" \in Ops /\ st.seq + 1 < MaxSeq
    /\ \E k1 \in Keys \ (WeakKeys \cup OnceKeys), k2 \in Keys \ (WeakKeys \cup OnceKeys), t1 \in {"V", "T"} :
         LET i1 == [k |-> k1, t |-> t1, v |-> IF t1 = "V" THEN ValAt(st.seq) ELSE NoVal]
             i2 == [k |-> k2, t |-> "V", v |-> ValAt(st.seq + 1)]
             e1 == [k |-> k1, s |-> st.seq, t |-> t1, v |-> i1.v]
             e2 == [k |-> k2, s |-> st.seq + 1, t |-> "V", v |-> i2.v] IN
         /\ st' = OpWrite(OpWrite(st, {i1}), {i2})
         /\ A' = AWrite(AWrite(A, {e1}), {e2})
         /\ Log([op |-> "writes", items |-> <<i1, i2>>])

Rotate ==
    /\ "rotate" \in Ops
    /\ st.mem[Latest(st).act] # {}
    /\ Len(Latest(st).sealed) < MaxSealed
    /\ st' = OpRotate(st)
    /\ A' = ARotate(A)
    /\ Log([op |-> "rotate"])

Flush ==
    /\ "flush" \in Ops /\ st.seq < MaxSeq
    /\ Latest(st).sealed # <<>>
    /\ \E w \in WChoices :
         /\ st' = OpFlushSep(st, w, [on |-> BigVals # {}, big |-> BigVals])
         /\ A' = AHazard(AFlush(A), FlushHazard(st, w))
         /\ Log([op |-> "flush", w |-> w])

\* table positions <<level, run, index>> (0-based level, 1-based run/index) for the harness
PosList(lv, ids) ==
    LET f == FlatIds(lv)
    IN SelectSeq([x \in 1..Len(f) |->
                    LET p == RunOfPos(lv, f[x])
                        run == lv[p[1]][p[2]]
                    IN <<p[1] - 1, p[2], CHOOSE q \in 1..Len(run) : run[q] = f[x], f[x]>>],
                 LAMBDA r : r[4] \in ids)

\* the filter of a merge and the Layer A effects of its verdicts on the entries shown
MergeFilter(ids) == FilterFn(FilterRules, BigVals, MergeInput(st, ids))
ModelFilterEffects(ids, dest, w) ==
    IF FilterRules = <<>> THEN {}
    ELSE LET sh == MergeOutput(st, ids, dest, w, MergeFilter(ids)).shown
             vd(e) == RuleVerdict(FilterRules, BigVals, e.k, e.v)
         IN {[k |-> e.k, s |-> e.s, c |-> st.seq,
              t |-> IF vd(e).kind = "drop" THEN "D" ELSE IF vd(e).t = "I" THEN "V" ELSE vd(e).t,
              v |-> IF vd(e).kind = "drop" THEN NoVal ELSE vd(e).v]
                : e \in {x \in Range(sh) : vd(x).kind # "keep"}}

Merge ==
    /\ "merge" \in Ops /\ st.seq < MaxSeq
    /\ LET lv == Latest(st).lv IN
       \E ids \in SUBSET AllIds(lv), dest \in DestLevels, split \in {"none", "all"}, w \in WChoices :
         /\ ids # {}
         /\ LegalMerge(st, ids, dest)
         /\ st' = OpMergeF(st, ids, dest, split, w, MergeFilter(ids))
         /\ A' = AFilter(AHazard(A, MergeHazard(st, ids, w)), ModelFilterEffects(ids, dest, w))
         /\ Log([op |-> "compact", kind |-> "merge", tables |-> PosList(lv, ids),
                 dest |-> dest, split |-> split, w |-> w])

Move ==
    /\ "move" \in Ops /\ st.seq < MaxSeq
    /\ LET lv == Latest(st).lv IN
       \E ids \in SUBSET AllIds(lv), dest \in DestLevels, w \in WChoices :
         /\ LegalMove(st, ids, dest)
         /\ \E t \in ids : LevelOf(lv, t) # dest
         /\ st' = OpMove(st, ids, dest, w)
         /\ A' = A
         /\ Log([op |-> "compact", kind |-> "move", tables |-> PosList(lv, ids),
                 dest |-> dest, split |-> "none", w |-> w])

Major ==
    /\ "major" \in Ops /\ st.seq < MaxSeq
    /\ \E split \in {"none", "all"}, w \in WChoices :
         /\ st' = OpMergeF(st, AllIds(Latest(st).lv), LastLevel, split, w, MergeFilter(AllIds(Latest(st).lv)))
         /\ A' = AFilter(AHazard(A, MergeHazard(st, AllIds(Latest(st).lv), w)),
                         ModelFilterEffects(AllIds(Latest(st).lv), LastLevel, w))
         /\ Log([op |-> "major", split |-> split, w |-> w])

\* compact(Leveled(l0 threshold, table target size)): which payload the real strategy
\* picks depends on byte sizes the model does not know, so for generation its effect is
\* any sound payload or nothing; the trace specification checks the choice actually made
LeveledParams == {<<1, 1>>, <<2, 1>>, <<2, 100>>, <<4, 1000>>}
Leveled ==
    /\ "leveled" \in Ops /\ st.seq < MaxSeq
    /\ LET lv == Latest(st).lv IN
       \E p \in LeveledParams, w \in WChoices :
         /\ \/ st' = st
            \/ \E ids \in SUBSET AllIds(lv), dest \in DestLevels :
                 /\ ids # {} /\ LegalMerge(st, ids, dest)
                 /\ st' = OpMerge(st, ids, dest, "none", w)
            \/ \E ids \in SUBSET AllIds(lv), dest \in DestLevels :
                 /\ LegalMove(st, ids, dest)
                 /\ st' = OpMove(st, ids, dest, w)
         /\ A' = A
         /\ Log([op |-> "leveled", l0 |-> p[1], ts |-> p[2], w |-> w])

\* with "litter" enabled the directory may hold leftovers of a crashed / failed operation
\* (partial table and blob files, a stale version file) when it is opened: recovery removes
\* them, the transition is the same (C20)
Reopen ==
    /\ "reopen" \in Ops
    /\ st.snaps = {}
    /\ st' = OpReopen(st)
    /\ A' = AReopen(A)
    /\ IF "litter" \in Ops
       THEN \E lt \in {0, 1} : Log([op |-> "reopen", litter |-> lt])
       ELSE Log([op |-> "reopen"])

\* bounds offered to drop_range: unbounded / inclusive / exclusive at keys and between keys
BoundPoints == 1..(2 * Max(Keys) + 1)
BoundChoices == {<<"U", 0>>} \cup {<<kd, x>> : kd \in {"I", "E"}, x \in BoundPoints}

DropRange ==
    /\ "droprange" \in Ops /\ st.seq < MaxSeq
    /\ \E lo \in BoundChoices, hi \in BoundChoices :
         LET b == [lo |-> lo, hi |-> hi]
             ks == {k \in Keys : InBounds(k, b)} IN
         /\ DropRangeIds(st, b) # {} \/ DropRangeNoop(b) \/ (lo[1] = "U" /\ hi[1] = "U")
            \/ (lo[1] # "U" /\ hi[1] # "U" /\ lo[2] = hi[2])
         /\ st' = OpDropRange(st, b)
         /\ A' = IF DropRangeNoop(b) THEN A ELSE ADropRange(A, ks, st.seq)
         /\ Log([op |-> "droprange", lo |-> lo, hi |-> hi])

Clear ==
    /\ "clear" \in Ops /\ st.seq < MaxSeq
    /\ st' = OpClear(st)
    /\ A' = AClear(A, st.seq)
    /\ Log([op |-> "clear"])

\* ascending batches over the keys; values / tombstones / weak tombstones
IngestBatches ==
    {b \in UNION {[1..n -> [k : Keys, t : {"V", "T"}, v : {NoVal, Max(Vals)}]] : n \in 1..2} :
        /\ \A j \in 1..Len(b) : (b[j].t = "V") = (b[j].v # NoVal)
        /\ \A j \in 1..Len(b) : b[j].k \notin WeakKeys
        /\ \A j \in 1..Len(b) - 1 : b[j].k < b[j+1].k}

Ingest ==
    /\ "ingest" \in Ops /\ st.seq + 1 < MaxSeq
    /\ \E b \in IngestBatches :
         LET s1 == OpIngestSep(st, b, [on |-> BigVals # {}, big |-> BigVals])
             g  == s1.seq - 1 IN
         /\ st' = s1
         /\ A' = AIngest(A, {[k |-> b[j].k, s |-> g, t |-> b[j].t, v |-> b[j].v] : j \in 1..Len(b)})
         /\ Log([op |-> "ingest", items |-> b])

OpenSnap ==
    /\ "snap" \in Ops
    /\ Cardinality(st.snaps) < MaxSnaps
    /\ st.vis \notin st.snaps
    /\ st' = OpOpenSnap(st)
    /\ A' = A
    /\ Log([op |-> "snap", S |-> st.vis])

ReleaseSnap ==
    /\ "snap" \in Ops
    /\ \E S \in st.snaps :
         /\ st' = OpReleaseSnap(st, S)
         /\ A' = A
         /\ Log([op |-> "release", S |-> S])

Next == Write \/ Batch \/ WritePair \/ Rotate \/ Flush \/ Merge \/ Move \/ Major \/ Leveled \/ Reopen
        \/ OpenSnap \/ ReleaseSnap \/ DropRange \/ Clear \/ Ingest

Spec == Init /\ [][Next]_vars

-----------------------------------------------------------------------------
(* State constraint of the bounded model                                   *)
(***************************************************************************)
Bounded ==
    /\ Cardinality(AllIds(Latest(st).lv)) <= MaxTables
    /\ Len(st.hist) <= MaxHist

-----------------------------------------------------------------------------
(* Properties (LsmProps) as invariants of the model                        *)
(***************************************************************************)
ReadsRefine    == PReadsRefine(st, A, Keys)
ScansRefine    == PScansRefine(st, A)
StructureSound == PStructureSound(st)
NoInvention    == PNoInvention(st, A)
DurableKept    == PDurableKept(st, A, Keys)
HiSound        == PHiSound(st, A)
SnapsResolve   == PSnapsResolve(st)

=============================================================================
