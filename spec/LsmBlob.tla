------------------------------ MODULE LsmBlob ------------------------------
(***************************************************************************)
(* Key-value separation as transition rules (src/blob_tree, src/vlog,      *)
(* compaction/worker.rs pick_blob_files_to_rewrite, compaction/flavour.rs, *)
(* version/mod.rs with_merge / with_dropped).                              *)
(*                                                                         *)
(* Blob state of a version:                                                *)
(*   blobs  set of blob file ids the version lists                         *)
(*   gc     fragmentation map: id -> <<count, bytes, on-disk bytes>>       *)
(* Blob files: id -> [n, bytes] (item count, total uncompressed bytes).    *)
(* Pointers of a table: set of <<k, s, bf, off, dsz, sz>>.                 *)
(*                                                                         *)
(* The operators compute, from the state before a commit, the blob list    *)
(* and the fragmentation map after it.  TraceLsm applies them to recorded  *)
(* states (conformance of the blob layer); GcExact / DeadDropped / ... are *)
(* the property predicates the rules are meant to establish.               *)
(***************************************************************************)
EXTENDS Naturals, Sequences, FiniteSets, FiniteSetsExt, TLC

Entry0 == <<0, 0, 0>>
GcGet(gc, f) == IF f \in DOMAIN gc THEN gc[f] ELSE Entry0
GcAdd(a, b) == <<a[1] + b[1], a[2] + b[2], a[3] + b[3]>>

RECURSIVE SumPtrs(_, _)
SumPtrs(S, idx) == IF S = {} THEN 0 ELSE LET x == CHOOSE y \in S : TRUE IN x[idx] + SumPtrs(S \ {x}, idx)

\* FragmentationMap as DroppedKvCallback: every dropped pointer adds (1, size, on-disk size)
\* to the entry of its blob file.  dropped: set of pointers <<k, s, bf, off, dsz, sz>>
DiffOf(dropped) ==
    [f \in {p[3] : p \in dropped} |->
        LET ps == {p \in dropped : p[3] = f} IN <<Cardinality(ps), SumPtrs(ps, 6), SumPtrs(ps, 5)>>]

\* FragmentationMap::merge_into
MergeGc(gc, diff) ==
    [f \in DOMAIN gc \cup DOMAIN diff |-> GcAdd(GcGet(gc, f), GcGet(diff, f))]

Prune(gc, blobs) == [f \in DOMAIN gc \cap blobs |-> gc[f]]

\* BlobFile::is_dead / is_stale (bf: id -> [n, bytes])
IsDead(bf, gc, f) == f \in DOMAIN gc /\ gc[f][2] = bf[f].bytes
\* stale: garbage bytes / total bytes >= threshold, threshold given as a fraction num/den
IsStale(bf, gc, f, num, den) == f \in DOMAIN gc /\ gc[f][2] * den >= num * bf[f].bytes

\* pick_blob_files_to_rewrite: files linked from the picked tables that are stale and not
\* dead, oldest first, cut to floor(len * age_cutoff), minus files another table points into
\*   linked: files linked by the picked tables; others: files linked by all other tables
\*   cutoff as fraction cn/cd
PickRewrite(bf, gc, linked, others, num, den, cn, cd) ==
    LET cand == {f \in linked : IsStale(bf, gc, f, num, den) /\ ~IsDead(bf, gc, f)}
        keep == (Cardinality(cand) * cn) \div cd
        first == {f \in cand : Cardinality({g \in cand : g < f}) < keep}
    IN first \ others

\* StandardCompaction / RelocatingCompaction::finish + Version::with_merge
\*   dead files are computed from the fragmentation map *before* the diff of this merge
MergeBlobs(blobs, gc, bf, rewritten, newFiles, diff) ==
    LET dead == {f \in blobs : IsDead(bf, gc, f)}
        drop == rewritten \cup dead
        changed == DOMAIN diff # {} \/ newFiles # {} \/ drop # {}
        b2 == (blobs \cup newFiles) \ drop
        g2 == IF DOMAIN diff # {} \/ drop # {} THEN Prune(MergeGc(gc, diff), b2) ELSE gc
    IN [blobs |-> b2, gc |-> g2]

\* Version::with_dropped: the links of the dropped tables become garbage; dead files leave
\* the list; the map is not pruned
\*   links: set of <<bf, count, bytes, on-disk bytes>> of the dropped tables
\*   any: some table was dropped (with no table dropped the version is copied unchanged)
DropBlobs(blobs, gc, bf, links, any) ==
    IF ~any THEN [blobs |-> blobs, gc |-> gc]
    ELSE LET diff == [f \in {l[1] : l \in links} |->
                        LET ls == {l \in links : l[1] = f} IN
                        <<SumPtrs(ls, 2), SumPtrs(ls, 3), SumPtrs(ls, 4)>>]
             g2 == MergeGc(gc, diff)
         IN [blobs |-> {f \in blobs : ~IsDead(bf, g2, f)}, gc |-> g2]
=============================================================================
