----------------------------- MODULE TraceTable -----------------------------
(***************************************************************************)
(* C12: validation of table cases recorded by `harness tablecase`.  Every  *)
(* line holds the stream that was written ([k, s, t, v] tuples, strictly   *)
(* ordered), the writer settings and what every read path returned.  TLC   *)
(* compares each result with the set-theoretic meaning of the stream:      *)
(*   full scans (iter forwards / backwards, scanner) = the stream,         *)
(*   get(k, S) = first item of k with seqno < S (probes also between keys),*)
(*   range(lo, hi) consumed from both ends in any pattern = Consume of the *)
(*     items inside the bounds,                                            *)
(*   metadata = computed from the stream.                                  *)
(* Bounds and probe keys use doubled keys (2k = key k, odd = between).     *)
(***************************************************************************)
EXTENDS Naturals, Sequences, FiniteSets, SequencesExt, FiniteSetsExt, TLC, Json, IOUtils

Rec == ndJsonDeserialize(IOEnv.TRACE)
VARIABLE l

Say(kind, what, i, d) == PrintT(ToJson(<<kind, what, i, d>>))

K(e) == e[1]
S(e) == e[2]

InB(k, b) ==
    /\ CASE b.lo[1] = "U" -> TRUE [] b.lo[1] = "I" -> 2*k >= b.lo[2] [] b.lo[1] = "E" -> 2*k > b.lo[2]
    /\ CASE b.hi[1] = "U" -> TRUE [] b.hi[1] = "I" -> 2*k <= b.hi[2] [] b.hi[1] = "E" -> 2*k < b.hi[2]

RECURSIVE Consume(_, _, _)
Consume(lst, pat, i) ==
    IF lst = <<>> THEN <<>>
    ELSE IF pat # <<>> /\ pat[((i - 1) % Len(pat)) + 1] = "B"
         THEN <<lst[Len(lst)]>> \o Consume(SubSeq(lst, 1, Len(lst) - 1), pat, i + 1)
         ELSE <<Head(lst)>> \o Consume(Tail(lst), pat, i + 1)

\* stored seqnos are reported (effective - global), probes use effective seqnos
GetDef(q, g, k2, sn) ==
    LET idx == {i \in 1..Len(q) : 2 * K(q[i]) = k2 /\ S(q[i]) + g < sn}
    IN IF idx = {} THEN <<>> ELSE <<q[Min(idx)]>>


CaseOk(i) ==
    LET r == Rec[i] q == r.stream res == r.res IN
    IF r.rk # "ok" THEN Say("VIOL", "TABLEFAIL", i, r.notes)
    ELSE IF q = <<>> THEN (res.empty \/ Say("VIOL", "TABLEEMPTY", i, r.id))
    ELSE
    /\ (~res.empty            \/ Say("VIOL", "TABLEEMPTY", i, r.id))
    /\ (res.iter_f = q        \/ Say("VIOL", "ITER", i, <<r.w, res.iter_f>>))
    /\ (res.iter_b = Reverse(q) \/ Say("VIOL", "ITERBACK", i, <<r.w, res.iter_b>>))
    /\ (res.scan = q          \/ Say("VIOL", "SCANNER", i, <<r.w, res.scan>>))
    /\ \A j \in 1..Len(res.gets) :
          LET p == res.gets[j] IN
          p[3] = GetDef(q, r.g, p[1], p[2]) \/ Say("VIOL", "GET", i, <<r.w, p, GetDef(q, r.g, p[1], p[2])>>)
    /\ \A j \in 1..Len(res.ranges) :
          LET rg == res.ranges[j]
              inb == SelectSeq(q, LAMBDA e : InB(K(e), rg))
          IN (rg.tail_ok /\ rg.res = Consume(inb, rg.pat, 1))
             \/ Say("VIOL", "RANGE", i, <<r.w, rg, Consume(inb, rg.pat, 1)>>)
    /\ LET m == res.meta IN
       (/\ m.min = K(q[1]) /\ m.max = K(q[Len(q)])
        /\ m.lo = Min({S(q[j]) : j \in 1..Len(q)}) /\ m.hi = Max({S(q[j]) : j \in 1..Len(q)})
        /\ m.n = Len(q)
        /\ m.tomb = Cardinality({j \in 1..Len(q) : q[j][3] \in {"T", "W"}})
        /\ m.wtomb = Cardinality({j \in 1..Len(q) : q[j][3] = "W"})
        /\ m.hiseq = Max({S(q[j]) : j \in 1..Len(q)}) + r.g)
       \/ Say("VIOL", "TMETA", i, <<r.w, m>>)

Init == l = 0
Next == l < Len(Rec) /\ l' = l + 1 /\ CaseOk(l + 1)
Spec == Init /\ [][Next]_l
Accepted == TLCGet("stats").diameter - 1 = Len(Rec) \/ Say("REJECT", "lines", TLCGet("stats").diameter - 1, Len(Rec))
=============================================================================
