------------------------------ MODULE MC_fifo ------------------------------
EXTENDS LsmFifo
(* model checking: every input within the bounds is one initial state      *)
CONSTANTS MaxTables, Times, Sizes, BlobBytes, Limits, Ttls, Nows, ExtraBlob
VARIABLES ts, dbsize, limit, ttl, now

TableSeqs == UNION {[1..n -> [created : Times, size : Sizes, bb : BlobBytes]] : n \in 0..MaxTables}
WithIds(s) == [i \in 1..Len(s) |-> [id |-> i, created |-> s[i].created, size |-> s[i].size, bb |-> s[i].bb]]

Init ==
    /\ ts \in {WithIds(s) : s \in TableSeqs}
    /\ limit \in Limits /\ ttl \in Ttls /\ now \in Nows
    \* db size = table bytes + the on-disk bytes of the blob files (at least what the tables
    \* reference, possibly more: garbage, compression is not modelled)
    /\ \E x \in ExtraBlob :
         dbsize = SumBytes(ts, 1..Len(ts)) + x
Next == UNCHANGED <<ts, dbsize, limit, ttl, now>>
Spec == Init /\ [][Next]_<<ts, dbsize, limit, ttl, now>>

ChoiceIsSound == FifoProp(ts, dbsize, limit, ttl, now, FifoChoose(ts, dbsize, limit, ttl, now))
\* what it drops for size is enough unless everything alive is gone
ChoiceSuffices ==
    LET D == FifoChoose(ts, dbsize, limit, ttl, now)
        gone == {i \in 1..Len(ts) : ts[i].id \in D} IN
    Monus(dbsize, SumBytes(ts, gone)) <= limit \/ gone = 1..Len(ts)
=============================================================================
