---------------------------- MODULE LsmBlobModel ----------------------------
(***************************************************************************)
(* Key-value separation on top of the sequential tree model: the blob      *)
(* layer as an observer of LsmTree's transitions, built from the           *)
(* transition rules of LsmBlob.tla.  Every separated value is one blob of  *)
(* size 1 (so bytes = count); a flush / ingestion writes either one blob   *)
(* file per blob (BlobPerFile) or one per call.                            *)
(*                                                                         *)
(*   bl.bid    blob file id counter                                        *)
(*   bl.rel    some merge has relocated a blob (witness for coverage only) *)
(*   bl.bfile  blob file id -> set of <<k, s>> (the blobs it holds)        *)
(*   bl.ptr    table id -> [<<k, s>> -> blob file id] (pointers of "I"     *)
(*             entries, keyed by effective seqno)                          *)
(*   bl.ver    version id -> [blobs, gc] for every retained super version  *)
(*                                                                         *)
(* TLC checks on the design: the fragmentation map is exact for the newest *)
(* version (C09), no retained version holds a dangling pointer (C08), a    *)
(* blob file leaves the version only when nothing points into it.          *)
(***************************************************************************)
EXTENDS LsmTree, LsmBlob

CONSTANTS BlobPerFile,        \* TRUE: file target size 1 (one blob per file)
          StaleNum, StaleDen, \* staleness threshold as a fraction
          ReopenAboveGc       \* TRUE: recovery restarts the blob file id counter above the ids
                              \* the fragmentation map mentions too (the repaired behaviour)

VARIABLE bl

bvars == <<st, A, h, bl>>

BInit == bl = [bid |-> 0, rel |-> FALSE, bfile |-> <<>>, ptr |-> <<>>, ver |-> (0 :> [blobs |-> {}, gc |-> <<>>])]

LastOp == h'[Len(h')]
OldVer == bl.ver[Latest(st).vid]

\* "I" entries (effective seqnos) of a table of a state
IEntries(s, t) == {<<e.k, e.s>> : e \in {x \in TEff(s.tbl[t]) : x.t = "I"}}

\* blob file contents as [n, bytes] for the LsmBlob rules
BfFacts == [f \in DOMAIN bl.bfile |-> [n |-> Cardinality(bl.bfile[f]), bytes |-> Cardinality(bl.bfile[f])]]

\* pointers of a set of tables as LsmBlob tuples <<k, s, bf, off, dsz, sz>>
PtrTuples(ids) == UNION {{<<p[1], p[2], bl.ptr[t][p], 0, 1, 1>> : p \in DOMAIN bl.ptr[t]} : t \in ids \cap DOMAIN bl.ptr}
Linked(ids) == {q[3] : q \in PtrTuples(ids)}

\* new blob files for a set of fresh blobs: one file each, or one for all
NewFiles(blobs) ==
    IF blobs = {} THEN <<>>
    ELSE IF BlobPerFile
    THEN LET sq == SetToSortSeq(blobs, LAMBDA a, b : a[1] < b[1] \/ (a[1] = b[1] /\ a[2] > b[2]))
         IN [j \in 1..Len(sq) |-> {sq[j]}]
    ELSE <<blobs>>

\* MultiWriter::new allocates one id up front; an unused writer wastes it
IdsUsed(files) == IF files = <<>> THEN 1 ELSE Len(files) + (IF BlobPerFile THEN 1 ELSE 0)

\* the blob layer of every retained version; a version installed on the way that the rule
\* did not name (the unseparated flush inside an ingestion) copies the layer it started from
Retain(ver2) == [v \in {st'.hist[i].vid : i \in 1..Len(st'.hist)} |->
                    IF v \in DOMAIN ver2 THEN ver2[v] ELSE OldVer]

\* tables created by this step
NewTbls == DOMAIN st'.tbl \ DOMAIN st.tbl

BlobNextVal ==
    LET op == LastOp
        nv == Latest(st').vid
    IN
    IF BigVals = {} THEN bl ELSE
    CASE op.op \in {"flush", "ingest"} ->
            \* fresh blobs: the I entries of the new table(s)
            LET fresh == UNION {IEntries(st', t) : t \in NewTbls}
                files == NewFiles(fresh)
                ids   == [j \in 1..Len(files) |-> bl.bid + j - 1]
                where(p) == ids[CHOOSE j \in 1..Len(files) : p \in files[j]]
                bf2   == bl.bfile @@ [f \in Range(ids) |-> files[CHOOSE j \in 1..Len(files) : ids[j] = f]]
                ptr2  == bl.ptr @@ [t \in NewTbls |-> [p \in IEntries(st', t) |-> where(p)]]
                nver  == [blobs |-> OldVer.blobs \cup Range(ids), gc |-> OldVer.gc]
            IN IF nv = Latest(st).vid THEN bl
               ELSE [bid |-> bl.bid + IdsUsed(files), rel |-> bl.rel,
                           bfile |-> bf2, ptr |-> ptr2,
                           ver |-> Retain(bl.ver @@ (nv :> nver))]
      [] op.op \in {"compact", "major"} /\ (op.op = "major" \/ op.kind = "merge") ->
            LET ids  == IF op.op = "major" THEN AllIds(Latest(st).lv) ELSE {op.tables[j][4] : j \in 1..Len(op.tables)}
                dest == IF op.op = "major" THEN LastLevel ELSE op.dest
                res  == MergeOutput(st, ids, dest, op.w, MergeFilter(ids))
                old  == PtrTuples(ids)
                dropped == {q \in old : \E j \in 1..Len(res.dropped) :
                               res.dropped[j].t = "I" /\ res.dropped[j].k = q[1] /\ res.dropped[j].s = q[2]}
                rew  == PickRewrite(BfFacts, OldVer.gc, Linked(ids), Linked(AllIds(Latest(st).lv) \ ids),
                                    StaleNum, StaleDen, 1, 1)
                \* surviving pointers (entries of the new tables that were pointers before)
                surv == UNION {IEntries(st', t) : t \in NewTbls}
                passed == {p \in surv : \E q \in old : q[1] = p[1] /\ q[2] = p[2]}
                srcOf(p) == (CHOOSE q \in old : q[1] = p[1] /\ q[2] = p[2])[3]
                moved == {p \in passed : srcOf(p) \in rew}
                fresh == surv \ passed          \* written by a filter replacement
                files == NewFiles(moved) \o NewFiles(fresh)
                fids  == [j \in 1..Len(files) |-> bl.bid + j - 1]
                where(p) == IF p \in moved \cup fresh
                            THEN fids[CHOOSE j \in 1..Len(files) : p \in files[j]]
                            ELSE srcOf(p)
                bf2  == bl.bfile @@ [f \in Range(fids) |-> files[CHOOSE j \in 1..Len(files) : fids[j] = f]]
                ptr2 == bl.ptr @@ [t \in NewTbls |-> [p \in IEntries(st', t) |-> where(p)]]
                mb   == MergeBlobs(OldVer.blobs, OldVer.gc, BfFacts, rew, Range(fids), DiffOf(dropped))
            IN [bid |-> bl.bid + Len(files) + (IF rew # {} /\ BlobPerFile THEN 1 ELSE 0),
                      rel |-> bl.rel \/ moved # {},
                      bfile |-> bf2, ptr |-> ptr2, ver |-> Retain(bl.ver @@ (nv :> mb))]
      [] op.op = "droprange" ->
            IF nv = Latest(st).vid THEN bl
            ELSE LET ids == AllIds(Latest(st).lv) \ AllIds(Latest(st').lv)
                     ps  == PtrTuples(ids)
                     links == {<<f, Cardinality({q \in ps : q[3] = f}), Cardinality({q \in ps : q[3] = f}),
                                 Cardinality({q \in ps : q[3] = f})>> : f \in {q[3] : q \in ps}}
                     db  == DropBlobs(OldVer.blobs, OldVer.gc, BfFacts, links, ids # {})
                 IN [bl EXCEPT !.ver = Retain(bl.ver @@ (nv :> db))]
      [] op.op = "clear" ->
            [bl EXCEPT !.ver = Retain(bl.ver @@ (nv :> [blobs |-> {}, gc |-> <<>>]))]
      [] op.op = "reopen" ->
            \* BlobTree::open: the counter restarts above the listed files and above every id
            \* the fragmentation map still mentions
            LET v == bl.ver[nv]
                top == v.blobs \cup (IF ReopenAboveGc THEN DOMAIN v.gc ELSE {})
            IN [bl EXCEPT !.bid = IF top = {} THEN 0 ELSE Max(top) + 1, !.ver = Retain(bl.ver)]
      [] OTHER ->
            \* moves and everything that keeps the blob layer: a new version copies it
            [bl EXCEPT !.ver = Retain(IF nv \in DOMAIN bl.ver THEN bl.ver ELSE bl.ver @@ (nv :> OldVer))]

\* files and pointer maps nothing retained refers to are deleted (drop of the last Arc)
Sweep(b) ==
    LET listed == UNION {b.ver[v].blobs : v \in DOMAIN b.ver}
    IN [b EXCEPT !.bfile = [f \in DOMAIN @ \cap listed |-> @[f]],
                 !.ptr   = [t \in DOMAIN @ \cap DOMAIN st'.tbl |-> @[t]]]

BlobStep == bl' = Sweep(BlobNextVal)

BNext == Next /\ BlobStep
BSpec == Init /\ BInit /\ [][BNext]_bvars

-----------------------------------------------------------------------------
LatestB == bl.ver[Latest(st).vid]

\* C09: the recorded garbage of every listed blob file = its blobs nothing points to
GcExactM ==
    BigVals = {} \/
    \A f \in LatestB.blobs :
        LET used == {p \in UNION {DOMAIN bl.ptr[t] : t \in AllIds(Latest(st).lv) \cap DOMAIN bl.ptr} :
                        \E t \in AllIds(Latest(st).lv) \cap DOMAIN bl.ptr : p \in DOMAIN bl.ptr[t] /\ bl.ptr[t][p] = f}
        IN GcGet(LatestB.gc, f)[1] = Cardinality(bl.bfile[f] \ used)

\* C08: every pointer of every table of every retained version points into a blob file that
\* version lists, at a blob that exists
NoDanglingM ==
    BigVals = {} \/
    \A i \in 1..Len(st.hist) :
        \A t \in AllIds(st.hist[i].lv) :
            \A p \in IEntries(st, t) :
                /\ t \in DOMAIN bl.ptr /\ p \in DOMAIN bl.ptr[t]
                /\ bl.ptr[t][p] \in bl.ver[st.hist[i].vid].blobs
                /\ p \in bl.bfile[bl.ptr[t][p]]

\* blob file ids are never handed out twice
IdsFresh == BigVals = {} \/ \A f \in DOMAIN bl.bfile \cup DOMAIN LatestB.gc : f < bl.bid

\* coverage witness: expected to be VIOLATED (a behaviour with a relocating merge exists)
NeverRelocates == ~bl.rel

ViewBlob == <<st, A, bl>>
=============================================================================
