------------------------------ MODULE MC_blob ------------------------------
(***************************************************************************)
(* TLC front end of LsmBlobModel (key-value separation at design level).   *)
(***************************************************************************)
EXTENDS LsmBlobModel

NoRules == <<>>
\* a filter that replaces a small value of key 1 by a big one, and removes big values of key 2
RulesBlob == << [k |-> 1, vp |-> 1, act |-> "replace", to |-> 1],
                [k |-> 2, vp |-> 2, act |-> "remove", to |-> 0] >>
=============================================================================
