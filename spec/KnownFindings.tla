--------------------------- MODULE KnownFindings ---------------------------
(***************************************************************************)
(* Signatures of the genuine defects that are recorded rather than         *)
(* repaired (known_findings.json).  A signature is a predicate over the    *)
(* step in which the damage is done; the keys it yields are marked in the  *)
(* Layer A ghost (haz), their reads are reported as KNOWN instead of VIOL  *)
(* and excluded from the model's invariants - any other violation of the   *)
(* same property is still reported.                                        *)
(***************************************************************************)
EXTENDS LsmOps

(* C13-weak-shadow.  An insert drains the expired weak tombstone directly  *)
(* below it (CompactionStream::next, "tail of this user key is entirely    *)
(* expired") while an older insert of the key lives outside of the merge.  *)
(* The insert can later be cancelled out by a newer weak tombstone, which  *)
(* resurrects the older insert:                                            *)
(*   insert k@0; rotate; remove_weak k@1; insert k@2; flush(0); rotate;    *)
(*   remove_weak k@4; flush(5); rotate; flush(6); merge the two new tables *)
(*   => get(k) returns the value written at seqno 0                        *)
(*   q       merged input of the flush / compaction                        *)
(*   w       its gc watermark                                              *)
(*   outside entries stored outside of the merge (effective seqnos)        *)
WeakShadowKeys(q, w, outside) ==
    {q[i].k : i \in {j \in 1..Len(q) - 1 :
        /\ q[j].t \in {"V", "I"}
        /\ q[j+1].k = q[j].k /\ q[j+1].t = "W" /\ q[j+1].s < w
        /\ \E e \in outside : e.k = q[j].k /\ e.t \in {"V", "I"} /\ e.s < q[j+1].s}}

TableEntries(st, ids) == UNION {TEff(st.tbl[t]) : t \in ids}

FlushHazard(st, w) ==
    LET sv == Latest(st)
        q  == SortEntries(UNION {st.mem[sv.sealed[i]] : i \in 1..Len(sv.sealed)})
    IN WeakShadowKeys(q, w, TableEntries(st, AllIds(sv.lv)))

MergeHazard(st, ids, w) ==
    WeakShadowKeys(MergeInput(st, ids), w, TableEntries(st, AllIds(Latest(st).lv) \ ids))

=============================================================================
