--------------------------- MODULE KnownFindings ---------------------------
(***************************************************************************)
(* Signatures of the genuine defects that are recorded rather than         *)
(* repaired (known_findings.json).  A signature is a predicate over the    *)
(* step in which the damage is done; the keys it yields are marked in the  *)
(* Layer A ghost (haz), their reads are reported as KNOWN instead of VIOL  *)
(* and excluded from the model's invariants - any other violation of the   *)
(* same property is still reported.                                        *)
(***************************************************************************)
EXTENDS LsmOps

(* C13-weak-shadow.  An insert drains the expired weak tombstone directly  *)
(* below it (CompactionStream::next, "tail of this user key is entirely    *)
(* expired") while an older insert of the key lives outside of the merge.  *)
(* The insert can later be cancelled out by a newer weak tombstone, which  *)
(* resurrects the older insert:                                            *)
(*   insert k@0; rotate; remove_weak k@1; insert k@2; flush(0); rotate;    *)
(*   remove_weak k@4; flush(5); rotate; flush(6); merge the two new tables *)
(*   => get(k) returns the value written at seqno 0                        *)
(*   q       merged input of the flush / compaction                        *)
(*   w       its gc watermark                                              *)
(*   outside entries stored outside of the merge (effective seqnos)        *)
WeakShadowKeys(q, w, outside) ==
    {q[i].k : i \in {j \in 1..Len(q) - 1 :
        /\ q[j].t \in {"V", "I"}
        /\ q[j+1].k = q[j].k /\ q[j+1].t = "W" /\ q[j+1].s < w
        /\ \E e \in outside : e.k = q[j].k /\ e.t \in {"V", "I"} /\ e.s < q[j+1].s}}

TableEntries(st, ids) == UNION {TEff(st.tbl[t]) : t \in ids}

FlushHazard(st, w) ==
    LET sv == Latest(st)
        q  == SortEntries(UNION {st.mem[sv.sealed[i]] : i \in 1..Len(sv.sealed)})
    IN WeakShadowKeys(q, w, TableEntries(st, AllIds(sv.lv)))

MergeHazard(st, ids, w) ==
    WeakShadowKeys(MergeInput(st, ids), w, TableEntries(st, AllIds(Latest(st).lv) \ ids))

(* C06-late-insert.  A reader at snapshot S is served from the newest      *)
(* retained super version whose install seqno is below S                   *)
(* (get_version_for_snapshot); writes go to the active memtable of the     *)
(* *newest* super version.  A writer that allocated seqno s, was overtaken  *)
(* by a version install (flush / compaction commit, seqno > s) and by a     *)
(* memtable rotation, inserts into a memtable the older super version does *)
(* not reference: at every snapshot s < S <= install seqno the write is     *)
(* invisible although it was acknowledged before S was published:          *)
(*   insert a@0; rotate; insert b@1; s := seqno.next() (= 2); flush        *)
(*   (installs with seqno 3); rotate; insert c@s; get(c, 3) = None         *)
(* Signature on a state: entries stored in the newest super version with   *)
(* seqno below S that the super version chosen for S does not hold.        *)
LateInsertKeys(st, S) ==
    LET i == SvIndexFor(st.hist, S) IN
    IF i = 0 \/ i = Len(st.hist) THEN {}
    ELSE LET old == SvEntries(st.hist[i], st.mem, st.tbl)
         IN {e.k : e \in {x \in SvEntries(Latest(st), st.mem, st.tbl) :
                            x.s < S /\ ~\E f \in old : f.k = x.k /\ f.s = x.s}}

=============================================================================
