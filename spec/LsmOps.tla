------------------------------- MODULE LsmOps -------------------------------
(***************************************************************************)
(* Layer B as pure operators: each operator maps a tree state (a record)   *)
(* and the arguments of one API call to the next tree state, following the *)
(* code's critical sections.  LsmTree.tla turns them into a state machine  *)
(* for TLC; TraceLsm.tla applies them to states recorded from the real     *)
(* tree.                                                                   *)
(*                                                                         *)
(* State record st:                                                        *)
(*   seq, vis        the two SequenceNumberCounters handed to Config       *)
(*   memId, tblId    memtable / table id counters                          *)
(*   mem             memtable id -> set of entries                         *)
(*   tbl             table id -> [e : Seq(Entry), g : global seqno]        *)
(*   hist            SuperVersions deque, oldest first; each element       *)
(*                   [s, vid, act, sealed, lv]                             *)
(*   snaps           snapshots currently held by the caller (protocol)     *)
(***************************************************************************)
EXTENDS LsmCore

Latest(st)      == st.hist[Len(st.hist)]
MaxNat(a, b)    == IF a >= b THEN a ELSE b

\* ids referenced by any retained super version
RefMems(hist) == UNION {{hist[i].act} \cup Range(hist[i].sealed) : i \in 1..Len(hist)}
RefTbls(hist) == UNION {AllIds(hist[i].lv) : i \in 1..Len(hist)}

\* drop memtables / tables no super version refers to (Arc drop)
Collect(st) ==
    [st EXCEPT !.mem = [m \in RefMems(st.hist) |-> st.mem[m]],
               !.tbl = [t \in RefTbls(st.hist) |-> st.tbl[t]]]

\* SuperVersions::maintenance
Maintain(hist, w) ==
    IF w = 0 \/ Len(hist) <= 1 THEN hist
    ELSE LET idx == {i \in 1..Len(hist) : hist[i].s < w}
         IN IF idx = {} THEN hist ELSE SubSeq(hist, Max(idx), Len(hist))

\* SuperVersions::get_version_for_snapshot; 0 = no version (the code panics)
SvIndexFor(hist, S) ==
    IF S = 0 THEN 1
    ELSE LET idx == {i \in 1..Len(hist) : hist[i].s < S}
         IN IF idx = {} THEN 0 ELSE Max(idx)

\* upgrade_version(_with_seqno): append with the given seqno, publish visible_seqno
Install(st, sv, seqno) ==
    [st EXCEPT !.hist = Append(@, [sv EXCEPT !.s = seqno, !.vid = Latest(st).vid + 1]),
               !.vis  = MaxNat(@, seqno + 1)]

\* replace_latest_version (same seqno, same version)
ReplaceLatest(st, sv) ==
    [st EXCEPT !.hist = [@ EXCEPT ![Len(@)] = sv]]

-----------------------------------------------------------------------------
InitState ==
    [seq |-> 0, vis |-> 0, memId |-> 1, tblId |-> 0,
     mem |-> (0 :> {}), tbl |-> <<>>,
     hist |-> <<[s |-> 0, vid |-> 0, act |-> 0, sealed |-> <<>>, lv |-> EmptyLevels]>>,
     snaps |-> {}]

\* caller: s = seq.next(); tree.insert/remove/remove_weak(.., s); vis.fetch_max(s+1)
\* items: set of [k, t, v] with distinct keys (a write batch shares one seqno)
OpWrite(st, items) ==
    LET s  == st.seq
        es == {[k |-> i.k, s |-> s, t |-> i.t, v |-> i.v] : i \in items}
        a  == Latest(st).act
    IN [st EXCEPT !.seq = s + 1, !.vis = MaxNat(@, s + 1),
                  !.mem = [@ EXCEPT ![a] = @ \cup es]]

\* the same with a seqno the caller allocated earlier (the counter has moved on meanwhile)
OpWriteAt(st, items, s) ==
    LET es == {[k |-> i.k, s |-> s, t |-> i.t, v |-> i.v] : i \in items}
        a  == Latest(st).act
    IN [st EXCEPT !.vis = MaxNat(@, s + 1), !.mem = [@ EXCEPT ![a] = @ \cup es]]

\* Tree::rotate_memtable
OpRotate(st) ==
    LET sv == Latest(st) IN
    IF st.mem[sv.act] = {} THEN st
    ELSE LET id == st.memId
             nsv == [sv EXCEPT !.act = id, !.sealed = Append(@, sv.act)]
         IN [ReplaceLatest(st, nsv) EXCEPT !.memId = id + 1,
                                          !.mem = @ @@ (id :> {})]

\* AbstractTree::flush (sequential: collect, write, register_tables, maintenance)
FlushOutput(st, w) ==
    LET sv == Latest(st)
        input == SortEntries(UNION {st.mem[sv.sealed[i]] : i \in 1..Len(sv.sealed)})
    IN CompactionStream(input, w, FALSE, NoFilter).out

\* key-value separation at flush (BlobTree::flush_to_tables): values whose byte length
\* reaches the threshold are written to a blob file, the table keeps a pointer ("I").
\*   sep = [on |-> BOOLEAN, big |-> set of model values that reach the threshold]
NoSep == [on |-> FALSE, big |-> {}]
Separate(sep, out) ==
    IF ~sep.on THEN out
    ELSE [j \in 1..Len(out) |->
            IF out[j].t = "V" /\ out[j].v \in sep.big THEN [out[j] EXCEPT !.t = "I"] ELSE out[j]]

\* the flush writer rotates to a new table when its 64 MiB target is reached (between user
\* keys): pieces = the output already cut into tables, registered together as one L0 run
OpFlushWith(st, w, pieces) ==
    LET sv == Latest(st) IN
    IF sv.sealed = <<>> THEN st
    ELSE LET n   == Len(pieces)
             id  == st.tblId
             new == [j \in 1..n |-> id + j - 1]
             T2  == st.tbl @@ [t \in {id + j - 1 : j \in 1..n} |-> [e |-> pieces[t - id + 1], g |-> 0]]
             nsv == [sv EXCEPT !.sealed = <<>>, !.lv = WithNewL0Run(sv.lv, new, T2)]
             s1  == [st EXCEPT !.tblId = id + (IF n = 0 THEN 1 ELSE n), !.tbl = T2, !.seq = @ + 1]
             s2  == Install(s1, nsv, st.seq)
         IN Collect([s2 EXCEPT !.hist = Maintain(@, w)])

OpFlushSep(st, w, sep) ==
    LET out == Separate(sep, FlushOutput(st, w))
    IN OpFlushWith(st, w, IF out = <<>> THEN <<>> ELSE <<out>>)

OpFlush(st, w) == OpFlushSep(st, w, NoSep)

\* split a compaction output into tables: cut = set of indices i such that a new
\* table starts at out[i] (always between distinct user keys)
LegalCuts(out) == {i \in 2..Len(out) : out[i].k # out[i-1].k}
SplitAt(out, cuts) ==
    LET starts == SetToSortSeq({1} \cup cuts, <)
    IN [j \in 1..Len(starts) |->
          SubSeq(out, starts[j], IF j = Len(starts) THEN Len(out) ELSE starts[j+1] - 1)]

\* input of a merge: every entry of the picked tables with effective seqnos
MergeInput(st, ids) == SortEntries(UNION {TEff(st.tbl[t]) : t \in ids})

\* worker::merge_tables + StandardCompaction::finish + maintenance
\*   pieces: the output already cut into tables (Seq(Seq(Entry)))
OpMergeWith(st, ids, dest, pieces, w) ==
    LET sv   == Latest(st)
        n    == Len(pieces)
        id0  == st.tblId
        new  == [j \in 1..n |-> id0 + j - 1]
        T2   == st.tbl @@ [t \in {id0 + j - 1 : j \in 1..n} |-> [e |-> pieces[t - id0 + 1], g |-> 0]]
        nsv  == [sv EXCEPT !.lv = WithMerge(sv.lv, ids, new, dest, T2)]
        s1   == [st EXCEPT !.tblId = id0 + (IF n = 0 THEN 1 ELSE n), !.tbl = T2, !.seq = @ + 1]
        s2   == Install(s1, nsv, st.seq)
    IN Collect([s2 EXCEPT !.hist = Maintain(@, w)])

MergeOutput(st, ids, dest, w, f) ==
    CompactionStream(MergeInput(st, ids), w, dest = LastLevel, f)

OpMergeF(st, ids, dest, split, w, f) ==
    LET out == MergeOutput(st, ids, dest, w, f).out
        pieces == IF out = <<>> THEN <<>>
                  ELSE SplitAt(out, IF split = "all" THEN LegalCuts(out) ELSE {})
    IN OpMergeWith(st, ids, dest, pieces, w)

OpMerge(st, ids, dest, split, w) == OpMergeF(st, ids, dest, split, w, NoFilter)

\* worker::move_tables
OpMove(st, ids, dest, w) ==
    LET sv  == Latest(st)
        nsv == [sv EXCEPT !.lv = WithMoved(sv.lv, ids, dest, st.tbl)]
        s2  == Install([st EXCEPT !.seq = @ + 1], nsv, st.seq)
    IN Collect([s2 EXCEPT !.hist = Maintain(@, w)])

\* worker::drop_tables
OpDrop(st, ids, w) ==
    LET sv  == Latest(st)
        nsv == [sv EXCEPT !.lv = WithDropped(sv.lv, ids, st.tbl)]
        s2  == Install([st EXCEPT !.seq = @ + 1], nsv, st.seq)
    IN Collect([s2 EXCEPT !.hist = Maintain(@, w)])

\* Tree::clear: fresh active memtable, no sealed ones, empty version, fresh seqno
OpClear(st) ==
    LET sv  == Latest(st)
        id  == st.memId
        nsv == [sv EXCEPT !.act = id, !.sealed = <<>>, !.lv = EmptyLevels]
        s1  == [st EXCEPT !.memId = id + 1, !.mem = @ @@ (id :> {}), !.seq = @ + 1]
    IN Collect(Install(s1, nsv, st.seq))

\* drop (close) + Config::open: memtables are gone, the newest version is recovered,
\* the table id counter restarts above the recovered ids; the caller keeps its
\* sequence number counters running.
OpReopen(st) ==
    LET sv  == Latest(st)
        ids == AllIds(sv.lv)
    IN Collect([st EXCEPT
           !.hist  = <<[s |-> 0, vid |-> sv.vid, act |-> 0, sealed |-> <<>>, lv |-> sv.lv]>>,
           !.mem   = (0 :> {}),
           !.memId = 1,
           !.tblId = (IF ids = {} THEN 0 ELSE Max(ids)) + 1,
           !.snaps = {}])

\* OwnedBounds::contains on a table's key range.  Bounds use doubled keys:
\* 2k is key k, 2k+1 a point strictly between k and k+1 (LsmCore!InBounds2)
BoundsContain(b, tb) ==
    /\ CASE b.lo[1] = "U" -> TRUE [] b.lo[1] = "I" -> b.lo[2] <= 2 * TMinKey(tb)
          [] b.lo[1] = "E" -> b.lo[2] < 2 * TMinKey(tb)
    /\ CASE b.hi[1] = "U" -> TRUE [] b.hi[1] = "I" -> b.hi[2] >= 2 * TMaxKey(tb)
          [] b.hi[1] = "E" -> b.hi[2] > 2 * TMaxKey(tb)

\* Tree::drop_range returns early only when both bounds are keys and lo > hi
DropRangeNoop(b) == b.lo[1] # "U" /\ b.hi[1] # "U" /\ b.lo[2] > b.hi[2]

DropRangeIds(st, b) ==
    {t \in AllIds(Latest(st).lv) : BoundsContain(b, st.tbl[t])}

OpDropRange(st, b) ==
    IF DropRangeNoop(b) THEN st ELSE OpDrop(st, DropRangeIds(st, b), 0)

\* Ingestion::new allocates the writer's table id; finish(): rotate, flush(0), then the
\* global seqno g = seq.next() stamps the ingested table and the version that adds it
\*   batch: Seq of [k, t, v] in strictly ascending key order, non-empty
\* (BlobIngestion: ingested values that reach the threshold are separated, while the pending
\* memtables are flushed through the index tree's own flush, i.e. without separation)
OpIngestSep(st, batch, sep) ==
    LET id  == st.tblId
        s0  == [st EXCEPT !.tblId = id + 1]
        s1  == OpFlush(OpRotate(s0), 0)
        g   == s1.seq
        sv  == Latest(s1)
        ents == Separate(sep, [j \in 1..Len(batch) |->
                                  [k |-> batch[j].k, s |-> 0, t |-> batch[j].t, v |-> batch[j].v]])
        T2  == s1.tbl @@ (id :> [e |-> ents, g |-> g])
        nsv == [sv EXCEPT !.lv = WithNewL0Run(sv.lv, <<id>>, T2)]
        s2  == [s1 EXCEPT !.tbl = T2, !.seq = g + 1]
    IN Collect(Install(s2, nsv, g))

OpIngest(st, batch) == OpIngestSep(st, batch, NoSep)

OpOpenSnap(st)       == [st EXCEPT !.snaps = @ \cup {st.vis}]
OpReleaseSnap(st, S) == [st EXCEPT !.snaps = @ \ {S}]

-----------------------------------------------------------------------------
(* Reads against a state.                                                  *)
(***************************************************************************)
\* value `get(k, S)` returns (NoVal = absent); Panic (-1) if no super version resolves
Panic == 0 - 1
ReadAt(st, k, S) ==
    LET i == SvIndexFor(st.hist, S)
    IN IF i = 0 THEN Panic ELSE UserGet(st.hist[i], st.mem, st.tbl, k, S)

InternalAt(st, k, S) ==
    LET i == SvIndexFor(st.hist, S)
    IN IF i = 0 THEN None ELSE InternalGet(st.hist[i], st.mem, st.tbl, k, S)

ScanAt(st, S, b) ==
    LET i == SvIndexFor(st.hist, S)
    IN IF i = 0 THEN << <<Panic, Panic>> >> ELSE ScanOf(SvEntries(st.hist[i], st.mem, st.tbl), S, b)

FullBounds == [lo |-> <<"U", 0>>, hi |-> <<"U", 0>>]

\* high-water marks (src/tree/mod.rs)
HiPersisted(st) ==
    LET ids == AllIds(Latest(st).lv)
    IN IF ids = {} THEN -1 ELSE Max({TMaxSeq(st.tbl[t]) + st.tbl[t].g : t \in ids})
HiMemtable(st) ==
    LET sv == Latest(st)
        es == st.mem[sv.act] \cup UNION {st.mem[sv.sealed[i]] : i \in 1..Len(sv.sealed)}
    IN IF es = {} THEN -1 ELSE Max({e.s : e \in es})

-----------------------------------------------------------------------------
(* Which compaction payloads keep the tree sound (what every shipped       *)
(* strategy guarantees and the worker relies on).                          *)
(***************************************************************************)
PosOf(lv, t) == LET f == FlatIds(lv) IN CHOOSE i \in 1..Len(f) : f[i] = t
RunOfPos(lv, t) ==   \* <<level index, run index>> of table t
    CHOOSE p \in UNION {{<<i, j>> : j \in 1..Len(lv[i])} : i \in 1..NLevels} :
        t \in Range(lv[p[1]][p[2]])

\* strictly before in read order (different run, earlier)
ReadsBefore(lv, x, y) ==
    LET px == RunOfPos(lv, x) py == RunOfPos(lv, y)
    IN px[1] < py[1] \/ (px[1] = py[1] /\ px[2] < py[2])

\* create_compaction_stream declines picks that are not contiguous inside a multi-table run
Contiguous(lv, ids) ==
    \A i \in 1..NLevels : \A j \in 1..Len(lv[i]) :
        LET run == lv[i][j]
            sel == {x \in 1..Len(run) : run[x] \in ids}
        IN Len(run) > 1 /\ sel # {} => sel = Min(sel)..Max(sel)

\* moving / merging `ids` to the front of level `dest` does not jump over a table
\* (outside the pick) whose key range overlaps a picked one
NoJump(st, lv, ids, dest) ==
    \A y \in ids : \A x \in AllIds(lv) \ ids :
        KrOverlap(st.tbl[x], st.tbl[y]) =>
            /\ ReadsBefore(lv, x, y) => LevelOf(lv, x) < dest
            /\ ReadsBefore(lv, y, x) => LevelOf(lv, x) >= dest

\* tombstones are evicted at the last level: nothing older may stay outside the pick
EvictSafe(st, lv, ids, dest) ==
    dest = LastLevel =>
        \A y \in ids : \A x \in AllIds(lv) \ ids :
            KrOverlap(st.tbl[x], st.tbl[y]) => ~ReadsBefore(lv, y, x)

\* shipped strategies never move data towards L0
Downward(lv, ids, dest) == \A t \in ids : LevelOf(lv, t) <= dest

LegalMerge(st, ids, dest) ==
    LET lv == Latest(st).lv IN
    /\ ids \subseteq AllIds(lv)
    /\ Downward(lv, ids, dest)
    /\ Contiguous(lv, ids)
    /\ NoJump(st, lv, ids, dest)
    /\ EvictSafe(st, lv, ids, dest)

\* a move keeps the tables as they are: they must form one sorted disjoint run
LegalMove(st, ids, dest) ==
    LET lv == Latest(st).lv IN
    /\ ids # {} /\ ids \subseteq AllIds(lv)
    /\ Downward(lv, ids, dest)
    /\ \E i \in 1..NLevels : \E j \in 1..Len(lv[i]) : ids \subseteq Range(lv[i][j])
    /\ NoJump(st, lv, ids, dest)

=============================================================================
