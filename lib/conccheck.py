"""C06: background flushes and compactions never change what readers see or lose a write.
spec/LsmConc.tla models the writer, the flusher, a compactor and clear at the granularity
of the tree's critical sections; TLC explores every interleaving within the bounds and
prints schedules; the harness forces each schedule on the real tree through the yield
points of the verif hooks and records reads and state after every critical section; TLC
(spec/TraceLsm.tla) validates every recorded step against the Layer A ghost."""
import json
import os
import re
import shutil
import subprocess
import time

import vlib
from vlib import log

INV = ["ConcReadsRefine", "ConcScansRefine", "ConcStructure", "HiddenAtRest", "ConcPubReads"]


def conc_cfg(path, consts, action_constraint=None, invariants=INV):
    lines = ["SPECIFICATION CSpec", "CONSTANTS"]
    for k, v in consts.items():
        lines.append(f"  {k} = {vlib.cfg_value(v)}")
    lines.append("VIEW ViewConc")
    if invariants:
        lines.append("INVARIANTS " + " ".join(invariants))
    if action_constraint:
        lines.append(f"ACTION_CONSTRAINT {action_constraint}")
    lines.append("CHECK_DEADLOCK FALSE")
    with open(path, "w") as f:
        f.write("\n".join(lines) + "\n")


def schedules_from(out):
    res = []
    for line in out.splitlines():
        m = re.match(r'<<"SCHED", (".*")>>$', line.strip())
        if m:
            try:
                res.append(json.loads(json.loads(m.group(1))))
            except json.JSONDecodeError:
                pass
    return res


def replay(prop, path):
    """Re-runs one forced schedule (or re-validates one free-running log) from a replay file."""
    with open(path) as f:
        beh = json.load(f)["behaviour"]
    work = vlib.scratch_dir()
    try:
        vlib.build_harness()
        known = vlib.load_known()
        listed = {f["id"]: f for f in known.get("findings", []) if f.get("property") == prop}
        if "free_log" in beh:
            res = vlib.validate_chunk("TraceFree.tla", "TraceFree.cfg", beh["free_log"], 6, work, 2400)
            vs = [m for m in res["msgs"] if m[0] == "VIOL"]
            for m in vs[:1]:
                print(f"VIOLATION property={prop} replay={path}")
                log(f"[{prop}] free-running {m[1]} event {m[2]}: {json.dumps(m[3])[:300]}")
            return 1 if vs else 0
        inp = os.path.join(work, "scheds.ndjson")
        outp = os.path.join(work, "conc-trace.ndjson")
        with open(inp, "w") as f:
            f.write(json.dumps({"id": 0, "sched": beh["sched"], "phys": 0,
                                "cscripted": bool(beh.get("cscripted"))}) + "\n")
        r = subprocess.run([vlib.HARNESS, "conc", "--in", inp, "--out", outp, "--nkeys", "2",
                            "--scratch", os.path.join(work, "ctrees")],
                           stdout=subprocess.PIPE, stderr=subprocess.PIPE, text=True)
        if r.returncode != 0:
            raise vlib.ToolError("harness conc failed")
        msgs, _ = vlib.validate_trace(outp, work, prop, 2, par=1)
        kinds = {"READ", "SCAN", "SCANX", "STRUCT", "META", "FILES", "HIDDENREST", "OPFAIL", "MALFORMED"}
        viols = [m for m in msgs if m["kind"] == "VIOL" and m["what"] in kinds]
        for m in msgs:
            if m["kind"] == "KNOWN":
                if m["what"] in listed:
                    print(f"KNOWN-FINDING: property={prop} {m['what']}: {listed[m['what']]['summary']}")
                    break
                viols.append(dict(m, kind="VIOL", what="READ"))
        for m in viols[:1]:
            print(f"VIOLATION property={prop} replay={path}")
            log(f"[{prop}] {m['what']} step {m['step']}: {json.dumps(m['detail'])[:300]}")
        log(f"[{prop}] replay: {len(viols)} violations")
        return 1 if viols else 0
    finally:
        if not os.environ.get("VERIF_KEEP"):
            shutil.rmtree(work, ignore_errors=True)


def run(prop, tier):
    t0 = time.time()
    sd = vlib.seed()
    work = vlib.scratch_dir()
    try:
        vlib.build_harness()
        scen = [
            ("wfc", {"CKeys": {1, 2}, "CVals": {1, 2, 3}, "NWrites": 3, "NFlushes": 2, "NCompactions": 1,
                     "Procs": {"w", "f", "c"}, "Guard287": "id"}),
            ("wfk", {"CKeys": {1, 2}, "CVals": {1, 2, 3}, "NWrites": 3, "NFlushes": 2, "NCompactions": 0,
                     "Procs": {"w", "f", "k"}, "Guard287": "id"}),
            ("wfr", {"CKeys": {1, 2}, "CVals": {1, 2, 3}, "NWrites": 3, "NFlushes": 2, "NCompactions": 0,
                     "NRotates": 2, "Procs": {"w", "f", "r"}, "Guard287": "id"}),
            ("wfcd", {"CKeys": {1, 2}, "CVals": {1, 2, 3}, "NWrites": 2, "NFlushes": 2, "NCompactions": 1,
                      "Procs": {"w", "f", "c", "d"}, "Guard287": "id"}),
        ]
        # clear while a flush is in flight, then new writes sealed by another thread before the flush
        # registers: the fjall#287 guard must compare memtable identities, not counts
        scen.append(("wfkr", {"CKeys": {1, 2}, "CVals": {1, 2, 3}, "NWrites": 2, "NFlushes": 1, "NCompactions": 0,
                              "NRotates": 1, "Procs": {"w", "f", "k", "r"}, "Guard287": "id"}))
        # two ordinary compactions overlapping in time (all visible tables -> last level, L0 -> L1)
        scen.append(("wfcc", {"CKeys": {1, 2}, "CVals": {1, 2, 3}, "NWrites": 2, "NFlushes": 2, "NCompactions": 1,
                              "Procs": {"w", "f", "c", "c2"}, "Guard287": "id", "CScripted": True}))
        # the caller's seqno.next() and the insert as two steps: other threads run in between
        scen.append(("w2fr", {"CKeys": {1, 2}, "CVals": {1, 2, 3}, "NWrites": 3, "NFlushes": 1, "NCompactions": 0,
                              "NRotates": 1, "Procs": {"w", "f", "r"}, "Guard287": "id", "SplitW": True}))
        for _, consts in scen:
            consts.setdefault("NRotates", 0)
            consts.setdefault("SplitW", False)
            consts.setdefault("CScripted", False)
        if tier == "thorough":
            scen.append(("wfc2", {"CKeys": {1, 2}, "CVals": {1, 2, 3}, "NWrites": 4, "NFlushes": 2,
                                  "NCompactions": 2, "NRotates": 0, "SplitW": False, "CScripted": False, "Procs": {"w", "f", "c"}, "Guard287": "id"}))
            scen.append(("wfcr", {"CKeys": {1, 2}, "CVals": {1, 2, 3}, "NWrites": 3, "NFlushes": 2,
                                  "NCompactions": 1, "NRotates": 1, "SplitW": False, "CScripted": False, "Procs": {"w", "f", "c", "r"},
                                  "Guard287": "id"}))
            scen.append(("w2fcr", {"CKeys": {1, 2}, "CVals": {1, 2, 3}, "NWrites": 3, "NFlushes": 1,
                                   "NCompactions": 1, "NRotates": 1, "SplitW": True, "CScripted": False,
                                   "Procs": {"w", "f", "c", "r"}, "Guard287": "id"}))
            scen.append(("wfcc2", {"CKeys": {1, 2}, "CVals": {1, 2, 3}, "NWrites": 3, "NFlushes": 2,
                                   "NCompactions": 2, "NRotates": 0, "SplitW": False, "CScripted": True,
                                   "Procs": {"w", "f", "c", "c2"}, "Guard287": "id"}))
        states = trans = 0
        scheds = []
        witnesses = {}
        mutants = {}
        scripted_keys = set()
        forced_first = []
        known = vlib.load_known()
        listed = {f["id"]: f for f in known.get("findings", []) if f.get("property") == prop}
        for f in listed.values():
            if f.get("example_replay"):
                with open(os.path.join(vlib.VERIF, f["example_replay"])) as fh:
                    forced_first.append(json.load(fh)["behaviour"]["sched"])
        for name, consts in scen:
            cfg = os.path.join(work, f"{name}.cfg")
            conc_cfg(cfg, consts)
            rc, out = vlib.run_tlc("MC_conc.tla", cfg, work, workers=8, timeout=1500)
            st = vlib.parse_tlc_stats(out)
            if not st.get("ok"):
                log(out[-3000:])
                raise vlib.ToolError(f"LsmConc ({name}) did not verify: {st.get('violated')}")
            states += st.get("distinct", 0)
            trans += st.get("generated", 0)
            log(f"[{prop}] LsmConc {name}: {st.get('distinct')} states, all interleavings ok")
            if "k" in consts["Procs"]:
                # mutant models: the schedules on which the stale-flush guard matters (no guard; a
                # guard that only counts) are counterexamples of the mutants and are always forced
                # on the real tree
                for mut in ("none", "count"):
                    cfgm = os.path.join(work, f"{name}-{mut}.cfg")
                    conc_cfg(cfgm, dict(consts, Guard287=mut))
                    cexm = os.path.join(work, f"{name}-{mut}.json")
                    rc, out = vlib.run_tlc("MC_conc.tla", cfgm, work, workers=4, timeout=900,
                                           extra=["-dumpTrace", "json", cexm])
                    if "is violated" in out:
                        try:
                            with open(cexm) as f:
                                dd = json.load(f)
                            ws = max((x[1].get("sched", []) for x in dd["counterexample"]["state"]), key=len)
                            forced_first.append(ws)
                            mutants[f"{name}/{mut}"] = len(ws)
                        except (OSError, KeyError, ValueError, IndexError):
                            pass
            if consts.get("SplitW"):
                # witness: the recorded known finding is reachable in the model (NoLateInsert is
                # expected to be violated); its counterexample is replayed like any schedule
                cfgw = os.path.join(work, f"{name}-wit.cfg")
                conc_cfg(cfgw, consts, invariants=["NoLateInsert"])
                cex = os.path.join(work, f"{name}-wit.json")
                rc, out = vlib.run_tlc("MC_conc.tla", cfgw, work, workers=4, timeout=900,
                                       extra=["-dumpTrace", "json", cex])
                wit = "Invariant NoLateInsert is violated" in out
                witnesses[name] = wit
                if wit:
                    try:
                        with open(cex) as f:
                            dd = json.load(f)
                        ws = max((x[1].get("sched", []) for x in dd["counterexample"]["state"]), key=len)
                        scheds.append(ws)
                        forced_first.append(ws)
                    except (OSError, KeyError, ValueError, IndexError):
                        pass
            # schedules: sampled edge cover of the interleaving graph; long ones only
            cfg2 = os.path.join(work, f"{name}-gen.cfg")
            # small interleaving graphs are covered edge by edge in the quick tier as well
            k = "PrintSched40" if tier == "quick" and st.get("distinct", 0) > 12000 else "PrintSched1"
            conc_cfg(cfg2, consts, action_constraint=k, invariants=[])
            rc, out = vlib.run_tlc("MC_conc.tla", cfg2, work, workers=1, timeout=1500,
                                   extra=["-seed", str(sd)])
            ss = schedules_from(out)
            mx = max((len(s) for s in ss), default=0)
            ss = [s for s in ss if len(s) >= mx - 2]
            if consts.get("CScripted"):
                for s_ in ss:
                    scripted_keys.add(json.dumps(s_, sort_keys=True))
            scheds.extend(ss)
        # dedupe, cap
        seen = set()
        uniq = []
        for s in scheds:
            key = json.dumps(s, sort_keys=True)
            if key not in seen:
                seen.add(key)
                uniq.append(s)
        cap = 400 if tier == "quick" else 20000
        import random
        random.Random(sd).shuffle(uniq)
        uniq = uniq[:cap]
        # atomicity probes of the writer's critical section (W is one step of LsmConc): the
        # writer is parked inside the memtable insert while another thread tries to seal and
        # flush that memtable (harness/src/conc.rs); the lines recorded are judged like any other
        def wr(k, t, v):
            return {"p": "w", "step": "write", "arg": {"k": k, "t": t, "v": v if t == "V" else 0}}
        fl = [{"p": "f", "step": s_, "arg": 0} for s_ in ("rotate", "collect", "write", "register")]
        probes = []
        for pre in range(3):
            for with_flush in (False, True):
                for t in ("V", "T"):
                    sch = [wr(1 + (j % 2), "V", j + 1) for j in range(pre)]
                    if with_flush and pre:
                        sch += fl
                    sch.append(dict(wr(1, t, 3), probe=True))
                    sch.append(wr(2, "V", 2))
                    probes.append(sch)
        uniq = probes + forced_first + [u for u in uniq if u not in forced_first]
        inp = os.path.join(work, "scheds.ndjson")
        outp = os.path.join(work, "conc-trace.ndjson")
        with open(inp, "w") as f:
            for i, s in enumerate(uniq):
                f.write(json.dumps({"id": i, "sched": s, "phys": i % 12,
                                    "cscripted": json.dumps(s, sort_keys=True) in scripted_keys}) + "\n")
        r = subprocess.run([vlib.HARNESS, "conc", "--in", inp, "--out", outp, "--nkeys", "2",
                            "--scratch", os.path.join(work, "ctrees")],
                           stdout=subprocess.PIPE, stderr=subprocess.PIPE, text=True)
        if r.returncode != 0:
            log(r.stderr[-2000:])
            raise vlib.ToolError("harness conc failed")
        summ = json.loads(r.stdout.strip().splitlines()[-1])
        log(f"[{prop}] {summ} t={round(time.time()-t0)}s")
        if summ.get("stuck", 0) > 0:
            raise vlib.ToolError(f"{summ['stuck']} forced schedules got stuck (the model's lock state is wrong)")
        msgs, nl = vlib.validate_trace(outp, work, prop, 2, par=8)
        # (which records are flushed at which moment is not tracked exactly by the ghost under
        # concurrency, so the flush-frontier predicates INVENT / LOST are not used here; after the
        # final flush every acknowledged write is durable and the reopen is checked by READ / SCAN)
        kinds = {"READ", "SCAN", "SCANX", "STRUCT", "META", "FILES", "HIDDENREST", "OPFAIL", "MALFORMED"}
        viols = [m for m in msgs if m["kind"] == "VIOL" and m["what"] in kinds]
        # reads matched by the signature of a listed known finding are reported as such; a
        # signature that is not listed suppresses nothing
        known_hit = {}
        for m in msgs:
            if m["kind"] == "KNOWN":
                if m["what"] in listed:
                    known_hit.setdefault(m["what"], []).append(m)
                else:
                    viols.append(dict(m, kind="VIOL", what="READ"))
        for fid in sorted(known_hit):
            print(f"KNOWN-FINDING: property={prop} {fid}: {listed[fid]['summary']}")
        first = {}
        for m in sorted(viols, key=lambda x: (x["beh"], x["step"])):
            first.setdefault(m["beh"], m)
        rc = 0
        for bi, m in list(first.items())[:5]:
            p = vlib.save_replay(prop, {"sched": uniq[bi], "cscripted": json.dumps(uniq[bi], sort_keys=True) in scripted_keys},
                                 {"what": m["what"], "line": m["step"]})
            print(f"VIOLATION property={prop} replay={p}")
            log(f"[{prop}] {m['what']} schedule {bi} step {m['step']}: {json.dumps(m['detail'])[:300]}")
            rc = 1
        # free-running part: unscheduled threads (writer, readers at writer-published snapshots,
        # flusher, two compactors with the real Leveled strategy, occasional major compaction),
        # seeded random pauses at the yield points; TLC checks every read against the write log
        fr = os.path.join(work, "free.ndjson")
        rounds, writes = (4, 250) if tier == "quick" else (60, 600)
        r = subprocess.run([vlib.HARNESS, "free", "--out", fr, "--nkeys", "6", "--rounds", str(rounds),
                            "--writes", str(writes), "--seed", str(sd),
                            "--scratch", os.path.join(work, "ftrees")],
                           stdout=subprocess.PIPE, stderr=subprocess.PIPE, text=True)
        if r.returncode != 0:
            log(r.stderr[-2000:])
            raise vlib.ToolError("harness free failed")
        with open(fr) as f:
            flines = f.readlines()
        # one chunk per round
        rounds_l = []
        for ln in flines:
            if '"ev":"reset"' in ln:
                rounds_l.append([])
            rounds_l[-1].append(ln)
        fviol = []
        from concurrent.futures import ThreadPoolExecutor

        def vround(ri):
            p = os.path.join(work, f"free-{ri}.ndjson")
            with open(p, "w") as f:
                f.writelines(rounds_l[ri])
            res = vlib.validate_chunk("TraceFree.tla", "TraceFree.cfg", p, 6, work, 2400)
            if not res["ok"]:
                raise vlib.ToolError("TraceFree validation did not complete: " + res["out_tail"][-400:])
            return ri, [m for m in res["msgs"] if m[0] == "VIOL"], any(m[0] == "REJECT" for m in res["msgs"])

        with ThreadPoolExecutor(max_workers=8) as ex:
            for ri, vs, rej in ex.map(vround, range(len(rounds_l))):
                if rej:
                    raise vlib.ToolError("free-running log not fully consumed")
                if vs:
                    fviol.append((ri, vs[0]))
        for ri, m in fviol[:3]:
            os.makedirs(vlib.REPLAYS, exist_ok=True)
            keep = os.path.join(vlib.REPLAYS, f"{prop}-free-{sd}-{ri}.ndjson")
            with open(keep, "w") as f:
                f.writelines(rounds_l[ri])
            p = vlib.save_replay(prop, {"free_log": keep, "seed": sd, "round": ri},
                                 {"what": m[1], "line": m[2]})
            print(f"VIOLATION property={prop} replay={p}")
            log(f"[{prop}] free-running {m[1]} round {ri} event {m[2]}: {json.dumps(m[3])[:300]}")
            rc = 1
        nev = len(flines)
        cov = {
            "free_running": {"rounds": len(rounds_l), "events": nev,
                             "reads": sum(1 for x in flines if '"ev":"r"' in x or '"ev":"scan"' in x)},
            "states": states, "transitions": trans,
            "traces_validated_against_impl": len(uniq),
            "samples": uniq[:2],
            "trace_lines_validated": nl,
            "scenarios": [n for n, _ in scen],
            "known_finding_reachable_in_model": witnesses,
            "schedules_from_mutant_models": mutants,
            "known_findings_reproduced": sorted(known_hit),
            "atomicity_probes": len(probes),
            "drift_lines": sum(1 for m in msgs if m["kind"] == "DRIFT"),
            "exhaustive": tier == "thorough",
        }
        vlib.write_evidence(prop, tier, "model_checking", cov, time.time() - t0, len(first) + len(fviol),
                            ["every critical section is atomic under its lock; the lock-free memtable and the atomics are linearizable",
                             "one flusher (the flush lock serialises flushes), one compactor issuing major-style merges; schedules are forced at the yield points of the verif hooks; rotator, drop_range and clear threads; atomicity probes park the writer inside Memtable::insert",
                             "quick tier replays a sample of the maximal schedules of the interleaving graph",
                             "free-running driver: the writer does not hold an allocated seqno across a memtable rotation (a driver-level lock, what fjall's journal lock provides); the case without that protocol is the recorded known finding C06-late-insert, decided by the forced schedules (scenario w2fr: seqno allocation and insert as two steps)",
                             "free-running readers use snapshots the writer has published (its own mark), as the property states; the tree's visible_seqno is also advanced by version installs and may run ahead of a write in flight (DESIGN.md 9, observations)",
                             "a violation found in a free-running round is reported with the recorded event log as replay (the OS schedule is not reproducible)"])
        log(f"[{prop}] {len(uniq)} forced schedules, {nl} lines, {len(first)} violations, {round(time.time()-t0)}s")
        return rc
    finally:
        if not os.environ.get("VERIF_KEEP"):
            shutil.rmtree(work, ignore_errors=True)
