"""The tree pipeline shared by the checks whose binding goes through TraceLsm:
TLC verifies the bounded model, TLC generates behaviours (simulation and/or sampled
edge cover), the harness replays them on the real tree, TLC validates the recorded
traces; property predicates that fail on a recorded real state are violations."""
import json
import os
import re
import shutil
import subprocess
import time

import vlib
from vlib import log


def assign_configs(behaviours, prof, sd):
    """Attach a physical configuration / concretisation to every behaviour."""
    out = []
    nphys = prof.get("phys_count", 1)
    kalphas = prof.get("key_alphas", [0])
    valphas = prof.get("val_alphas", [0])
    blobs = prof.get("blobs", [None])
    for i, ops in enumerate(behaviours):
        j = i + sd
        extra = {}
        if ops and ops[0].get("op") == "_meta":
            extra = {k: v for k, v in ops[0].items() if k != "op"}
            ops = ops[1:]
        b = {"id": i, "ops": ops,
             "phys": (j % nphys) if nphys > 1 else prof.get("phys", 0),
             "key_alpha": kalphas[j % len(kalphas)],
             "val_alpha": valphas[(j // 2) % len(valphas)],
             "blob": blobs[(j // 3) % len(blobs)]}
        # "split all" (table target size 1) only cuts at every key when every item spills
        # its own data block
        if any(op.get("split") == "all" for op in ops):
            b["block_size"] = 1
        b.update(extra)
        if b.get("phys_list"):
            b["phys"] = b["phys_list"][0]
        out.append(b)
    # the same behaviour under several physical configurations; copies of different
    # behaviours are adjacent so that --share-pairs couples trees with coinciding table ids
    rep = prof.get("replicate", 1)
    if rep > 1:
        reps = []
        for r in range(rep):
            for i, b in enumerate(out):
                c = dict(b)
                c["phys"] = (i * rep + r + sd) % max(nphys, 1)
                if b.get("phys_list"):
                    c["phys"] = b["phys_list"][r % len(b["phys_list"])]
                c["id"] = f"{b['id']}/{r}"
                reps.append(c)
        out = reps
    return out


def dedupe(behaviours):
    seen = set()
    out = []
    for ops in behaviours:
        k = json.dumps(ops, sort_keys=True)
        if k not in seen:
            seen.add(k)
            out.append(ops)
    return out


def match_known(prop, beh, msg, known):
    """A violation is suppressed only if a listed signature matches it."""
    for f in known.get("findings", []):
        if f.get("property") != prop:
            continue
        # findings whose signature is a TLA+ predicate (KnownFindings.tla) are matched by TLC
        # (KNOWN lines); only an operation-pattern signature (a dict) is matched here
        sig = f.get("ops_signature")
        if not isinstance(sig, dict):
            continue
        if sig.get("what") and sig["what"] != msg["what"]:
            continue
        ops = beh["ops"][:msg["step"]]
        needs = sig.get("ops_contain", [])
        if all(any(all(op.get(k) == v for k, v in need.items()) for op in flatten_ops(ops))
               for need in needs):
            return f
    return None


def flatten_ops(ops):
    for op in ops:
        yield op
        for it in op.get("items", []) or []:
            yield dict(it, op="item")


def run(prop, tier, prof, replay_path=None):
    t0 = time.time()
    sd = vlib.seed()
    work = vlib.scratch_dir()
    try:
        return _run(prop, tier, prof, replay_path, t0, sd, work)
    finally:
        if os.environ.get("VERIF_KEEP"):
            log(f"work dir kept: {work}")
        else:
            shutil.rmtree(work, ignore_errors=True)


def _run(prop, tier, prof, replay_path, t0, sd, work):
    vlib.build_harness()
    tp = prof[tier]
    nkeys = prof["nkeys"]
    # MALFORMED (the tree handed out keys / values that were never written, or an unreadable
    # table) is held against every property checked through recorded states
    viol_kinds = set(prof["viol_kinds"]) | {"MALFORMED"}
    known = vlib.load_known()

    if replay_path:
        with open(replay_path) as f:
            rp = json.load(f)
        behaviours = [rp["behaviour"]]
        verify = None
    else:
        # 1. design level: the bounded model satisfies the invariants
        verify = vlib.tlc_verify(prop, tp["verify"]["constants"], prof.get("invariants", []), work,
                                 workers=tp["verify"].get("workers", 8),
                                 timeout=tp["verify"].get("timeout", 900))
        log(f"[{prop}] model: {verify.get('distinct')} distinct states, "
            f"{verify.get('generated')} transitions, ok={verify.get('ok')} ({verify['wall_s']}s)")
        raw = []
        if verify.get("violated"):
            # a counterexample of the model alone is never reported as a violation (DESIGN 5):
            # it is replayed on the real tree first
            if not verify.get("cex_ops"):
                log(verify.get("counterexample", ""))
                raise vlib.ToolError(f"model invariant {verify['violated']} violated and the "
                                     "counterexample could not be extracted")
            log(f"[{prop}] model invariant {verify['violated']} violated; replaying the "
                f"counterexample ({len(verify['cex_ops'])} steps) on the real tree")
            raw.append(verify["cex_ops"])
        # 1b. design level, key-value separation (LsmBlobModel): the fragmentation map stays
        # exact, no retained version has a dangling pointer, blob file ids stay fresh
        if tp.get("blob_model"):
            bm = tp["blob_model"]
            bver = vlib.tlc_verify(prop, bm["constants"], bm["invariants"], work,
                                   workers=bm.get("workers", 8), timeout=bm.get("timeout", 900),
                                   module="MC_blob.tla", view="ViewBlob", spec="BSpec",
                                   simulate=bm.get("simulate"))
            log(f"[{prop}] blob model: {bver.get('distinct')} distinct states, "
                f"{bver.get('generated')} transitions, ok={bver.get('ok')} ({bver['wall_s']}s)")
            verify["blob_model"] = {k: bver.get(k) for k in
                                    ("distinct", "generated", "depth", "ok", "violated", "wall_s", "mode",
                                     "timeout", "constants")}
            verify["blob_model"]["invariants"] = bm["invariants"]
            if bver.get("violated"):
                if not bver.get("cex_ops"):
                    log(bver.get("counterexample", ""))
                    raise vlib.ToolError(f"blob model invariant {bver['violated']} violated and "
                                         "the counterexample could not be extracted")
                log(f"[{prop}] blob model invariant {bver['violated']} violated; replaying the "
                    f"counterexample ({len(bver['cex_ops'])} steps) on the real tree")
                raw.append(bver["cex_ops"])
        # 1c. design level, FIFO strategy (LsmFifo!FifoChoose, the transcription TraceLsm holds the
        # real strategy's choices against): C19 for every input within the bounds
        if tp.get("fifo_model"):
            fm = tp["fifo_model"]
            fver = vlib.tlc_verify(prop, fm["constants"], ["ChoiceIsSound", "ChoiceSuffices"], work,
                                   workers=fm.get("workers", 8), timeout=fm.get("timeout", 900),
                                   module="MC_fifo.tla", view=None, constraint=None, spec="Spec")
            log(f"[{prop}] FIFO strategy model: {fver.get('distinct')} inputs, ok={fver.get('ok')} "
                f"({fver['wall_s']}s)")
            if not fver.get("ok"):
                log(fver.get("counterexample", ""))
                raise vlib.ToolError("the transcribed FIFO strategy violates C19 in the model "
                                     f"({fver.get('violated')}); no automatic replay for this model")
            verify["fifo_model"] = {k: fver.get(k) for k in ("distinct", "generated", "ok", "wall_s", "constants")}
            # the same function checked symbolically (Apalache): every integer input with at most
            # maxlen tables
            if fm.get("apalache_maxlen"):
                ta = time.time()
                src = open(os.path.join(vlib.SPEC, "apalache", "LsmFifoApa.tla")).read()
                src = re.sub(r"^MaxLen == \d+", f"MaxLen == {fm['apalache_maxlen']}", src, flags=re.M)
                adir = os.path.join(work, "apa")
                os.makedirs(adir, exist_ok=True)
                with open(os.path.join(adir, "LsmFifoApa.tla"), "w") as fh:
                    fh.write(src)
                try:
                    ar = subprocess.run(["apalache-mc", "check", "--length=0", "--inv=Inv",
                                         f"--out-dir={adir}/out", "LsmFifoApa.tla"], cwd=adir,
                                        stdout=subprocess.PIPE, stderr=subprocess.STDOUT, text=True,
                                        timeout=fm.get("apalache_timeout", 900))
                    aout = ar.stdout
                except subprocess.TimeoutExpired:
                    aout = "timeout"
                aok = "The outcome is: NoError" in aout
                log(f"[{prop}] FIFO strategy, symbolic (Apalache, <= {fm['apalache_maxlen']} tables, "
                    f"unbounded integers): ok={aok} ({round(time.time()-ta, 1)}s)")
                if "The outcome is: Error" in aout:
                    log(aout[-2000:])
                    raise vlib.ToolError("Apalache found an input for which the transcribed FIFO strategy "
                                         "violates C19; no automatic replay for this model")
                verify["fifo_model"]["symbolic"] = {"tool": "apalache-mc check --length=0 --inv=Inv",
                                                    "max_tables": fm["apalache_maxlen"], "ok": aok,
                                                    "completed": aok, "wall_s": round(time.time() - ta, 1)}
        # 2. generate behaviours
        driven = []
        for g in tp["gen"]:
            if g["mode"] == "fifo":
                import drive
                ds = drive.fifo_behaviours(sd * 7919 + len(driven), g["count"], g.get("nkeys", prof["nkeys"]))
                log(f"[{prop}] generated {len(ds)} behaviours (fifo) t={round(time.time()-t0)}s")
                driven.extend(ds)
                continue
            if g["mode"] == "hugeflush":
                import drive
                ds = drive.hugeflush_behaviours(sd * 7919 + len(driven), g["count"], g.get("nkeys", prof["nkeys"]))
                log(f"[{prop}] generated {len(ds)} behaviours (hugeflush) t={round(time.time()-t0)}s")
                driven.extend(ds)
                continue
            if g["mode"] == "deep":
                import drive
                ds = drive.deep_behaviours(sd * 7919 + len(driven), g["count"], g.get("nkeys", prof["nkeys"]))
                log(f"[{prop}] generated {len(ds)} behaviours (deep) t={round(time.time()-t0)}s")
                driven.extend(ds)
                continue
            if g["mode"] == "drive":
                import drive
                ds = drive.behaviours(sd * 7919 + len(driven), g["count"], g.get("nkeys", prof["nkeys"]),
                                      g["steps"], g["weights"], **g.get("kw", {}))
                log(f"[{prop}] generated {len(ds)} behaviours (drive) t={round(time.time()-t0)}s")
                driven.extend(ds)
                continue
            if g["mode"] == "sim":
                bs = vlib.tlc_generate_sim(prop, g["constants"], work, g["num"], g["depth"],
                                           sd + 17 * len(raw))
            else:
                bs, _ = vlib.tlc_generate_edges(prop, g["constants"], work, g["sample_k"], sd,
                                                timeout=g.get("timeout", 600))
                if g.get("max"):
                    bs = bs[:g["max"]]
            log(f"[{prop}] generated {len(bs)} behaviours ({g['mode']}) t={round(time.time()-t0)}s")
            raw.extend(bs)
        raw = dedupe(raw)
        # simulation prints every candidate successor: large runs are thinned to a seeded sample
        cap = tp.get("max_behaviours", 6000 if tier == "quick" else 40000)
        if len(raw) > cap:
            import random
            keep = raw[:1] if verify.get("violated") or (verify.get("blob_model") or {}).get("violated") else []
            rng = random.Random(sd * 31 + 7)
            raw = keep + rng.sample(raw[len(keep):], cap - len(keep))
            log(f"[{prop}] thinned to {len(raw)} behaviours")
        raw = raw + driven
        if prof.get("scans"):
            import random
            import drive
            rng = random.Random(sd * 104729 + 1)
            raw = [drive.add_scans(ops, rng, nkeys, **prof["scans"]) for ops in raw]
        behaviours = assign_configs(raw, prof, sd)
        # behaviours that exposed defects which were repaired: reported again if they return
        for path in prof.get("regress", []):
            with open(os.path.join(vlib.VERIF, path)) as fh:
                behaviours.append(json.load(fh)["behaviour"])
        # one dedicated run per listed finding shows that it still reproduces
        for f in known.get("findings", []):
            if f.get("property") == prop and f.get("example_replay"):
                with open(os.path.join(vlib.VERIF, f["example_replay"])) as fh:
                    behaviours.append(json.load(fh)["behaviour"])

    # the key alphabet of the run covers every behaviour (regression behaviours recorded by
    # another check may use more keys than this profile generates)
    for b in behaviours:
        for op in flatten_ops(b["ops"]):
            if isinstance(op.get("k"), int):
                nkeys = max(nkeys, op["k"])
    # 3. replay on the real tree
    try:
        trace, summary = vlib.harness_replay(behaviours, work, prop, nkeys, prof.get("harness_args", []))
    except vlib.HarnessHang as hg:
        # a call that never returns serves nothing: held against whatever property is checked
        beh = behaviours[hg.beh]
        cut = dict(beh, ops=beh["ops"][:max(hg.step, 1)])
        pth = vlib.save_replay(prop, cut, {"what": "HANG", "step": hg.step,
                                         "detail": "the operation used 90 s of CPU time without returning"})
        print(f"VIOLATION property={prop} replay={pth}")
        log(f"[{prop}] HANG behaviour {hg.beh} step {hg.step}: the operation did not return")
        vlib.write_evidence(prop, tier, "model_checking",
                            {"states": (verify or {}).get("distinct", 1), "transitions": (verify or {}).get("generated", 1),
                             "traces_validated_against_impl": hg.beh, "hang": {"behaviour": hg.beh, "step": hg.step},
                             "samples": [cut],
                             "exhaustive": False},
                            time.time() - t0, 1, prof.get("assumptions", []))
        return 1
    log(f"[{prop}] replayed {summary} t={round(time.time()-t0)}s")
    # 4. validate the recorded traces
    msgs, lines = vlib.validate_trace(trace, work, prop, nkeys, par=tp.get("par", 8))

    viols, drifts, other = [], [], []
    listed = {f["id"]: f for f in known.get("findings", []) if f.get("property") == prop}
    tlc_known = {}
    for m in msgs:
        if m["kind"] == "KNOWN":
            if m["what"] in listed:
                tlc_known.setdefault(m["what"], []).append(m)
            elif "READ" in viol_kinds:
                # a signature that is not listed suppresses nothing
                viols.append(dict(m, kind="VIOL", what="READ"))
        elif m["kind"] == "VIOL" and m["what"] in viol_kinds:
            viols.append(m)
        elif m["kind"] == "VIOL":
            other.append(m)
        else:
            drifts.append(m)
    # a scripted / test-helper compaction that the model does not consider sound is the
    # driver's fault: nothing after it in that behaviour is held against the code
    illegal_from = {}
    for m in drifts:
        if m["kind"] == "ILLEGAL":
            op = behaviours[m["beh"]]["ops"][m["step"] - 1]
            if op.get("op") in ("compact", "movedown", "pulldown"):
                illegal_from[m["beh"]] = min(illegal_from.get(m["beh"], 10**9), m["step"])
    viols = [m for m in viols if m["step"] < illegal_from.get(m["beh"], 10**9)]
    # only the first violation of each behaviour is reported
    first = {}
    for m in sorted(viols, key=lambda x: (x["beh"], x["step"])):
        first.setdefault(m["beh"], m)
    reported, known_hits = [], []
    for bi, m in first.items():
        beh = behaviours[bi]
        cut = dict(beh, ops=beh["ops"][:m["step"]])
        kf = match_known(prop, cut, m, known)
        if kf:
            known_hits.append((kf, cut, m))
        else:
            reported.append((cut, m))

    steps = summary.get("steps", 0)
    distinct = len({json.dumps(b["ops"], sort_keys=True) for b in behaviours if len(b["ops"]) >= 3})
    cov = {
        "states": (verify or {}).get("distinct", 1),
        "transitions": (verify or {}).get("generated", 1),
        "model_exhaustive_within_bounds": bool(verify and verify.get("ok") and not verify.get("timeout")),
        "model_constants": (verify or {}).get("constants"),
        "model_invariants": list(prof["invariants"]),
        "blob_model": (verify or {}).get("blob_model"),
        "fifo_model": (verify or {}).get("fifo_model"),
        "traces_validated_against_impl": len(behaviours),
        "trace_steps_validated": lines,
        "evaluations": steps,
        "distinct_nontrivial": distinct,
        "rule": "behaviours are generated by TLC from the bounded LsmTree model (random simulation "
                "and sampled edge cover), replayed on the real tree and validated line by line by "
                "TraceLsm; distinct = different operation sequences with >= 3 steps",
        "samples": [behaviours[i] for i in range(0, len(behaviours), max(1, len(behaviours) // 3))][:3],
        "drift_lines": len(drifts),
        "driver_illegal_choices": len(illegal_from),
        # choices of the real strategies (Leveled, major, FIFO ...) that the model calls unsound:
        # not a violation of any listed property on their own, recorded (zero on the unchanged tree)
        "strategy_illegal_choices": sum(
            1 for m in drifts if m["kind"] == "ILLEGAL"
            and behaviours[m["beh"]]["ops"][m["step"] - 1].get("op") not in ("compact", "movedown", "pulldown")),
        "drift_samples": drifts[:3],
        "signals_for_other_properties": sorted({m["what"] for m in other}),
        "known_findings_reproduced": sorted({k[0]["id"] for k in known_hits} | set(tlc_known)),
        "checked_predicates": sorted(viol_kinds),
        "exhaustive": False,
    }
    for kf, cut, m in known_hits[:1000]:
        pass
    for fid in sorted({k[0]["id"] for k in known_hits}):
        kf = next(k[0] for k in known_hits if k[0]["id"] == fid)
        print(f"KNOWN-FINDING: property={prop} {kf['summary']}")
    for fid in sorted(tlc_known):
        print(f"KNOWN-FINDING: property={prop} {fid}: {listed[fid]['summary']}")
    bmv = ((verify or {}).get("blob_model") or {}).get("violated")
    if bmv and not reported and not known_hits:
        raise vlib.ToolError(f"blob model invariant {bmv} is violated but the real tree does not "
                             "show it: the model misrepresents the code")
    if verify and verify.get("violated") and not reported and not known_hits:
        raise vlib.ToolError(f"model invariant {verify['violated']} is violated but the real tree "
                             "does not show it: the model misrepresents the code")
    rc = 0
    for cut, m in reported[:5]:
        p = vlib.save_replay(prop, cut, m)
        print(f"VIOLATION property={prop} replay={p}")
        log(f"[{prop}] {m['what']} at step {m['step']}: {json.dumps(m['detail'])[:600]}")
        rc = 1
    vlib.write_evidence(prop, tier, "model_checking", cov, time.time() - t0, len(reported),
                        prof.get("assumptions", []))
    log(f"[{prop}] {len(behaviours)} behaviours, {lines} trace lines, {len(reported)} violations, "
        f"{len(drifts)} drift lines, {round(time.time()-t0)}s")
    return rc
