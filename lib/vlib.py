"""Shared machinery of the checks: building the harness, running TLC (verification,
generation, trace validation), collecting verdicts, writing evidence.

Exit codes: 0 property held on everything explored; 1 VIOLATION (with replay file);
2 tool error / timeout.
"""
import hashlib
import json
import os
import re
import shutil
import subprocess
import sys
import time
from concurrent.futures import ThreadPoolExecutor

VERIF = os.path.dirname(os.path.dirname(os.path.abspath(__file__)))
SPEC = os.path.join(VERIF, "spec")
HARNESS_DIR = os.path.join(VERIF, "harness")
HARNESS = os.path.join(HARNESS_DIR, "target", "debug", "harness")
EVIDENCE = os.path.join(VERIF, "evidence")
REPLAYS = os.path.join(VERIF, "replays")
KNOWN = os.path.join(VERIF, "known_findings.json")
THOROUGH = [False]   # set by the checks of the thorough tier (longer validation budgets)
JAVA_OPTS_TRACE = "-Xss1g -Dtlc2.tool.queue.IStateQueue=StateDeque"


class ToolError(Exception):
    pass


def log(*a):
    print(*a, file=sys.stderr, flush=True)


def seed():
    try:
        return int(os.environ.get("VERIF_SEED", "1"))
    except ValueError:
        return 1


def scratch_dir():
    base = "/dev/shm" if os.path.isdir("/dev/shm") else "/tmp"
    d = os.path.join(base, f"verif-{os.getpid()}")
    os.makedirs(d, exist_ok=True)
    return d


def build_harness():
    t0 = time.time()
    env = dict(os.environ, CARGO_NET_OFFLINE="true")
    r = subprocess.run(["cargo", "build", "--offline"], cwd=HARNESS_DIR, env=env,
                       stdout=subprocess.PIPE, stderr=subprocess.STDOUT, text=True)
    if r.returncode != 0:
        log(r.stdout[-4000:])
        raise ToolError("harness build failed")
    return time.time() - t0


# ---------------------------------------------------------------- TLC

def cfg_value(v):
    if isinstance(v, bool):
        return "TRUE" if v else "FALSE"
    if isinstance(v, int):
        return str(v)
    if isinstance(v, str):
        return json.dumps(v)
    if isinstance(v, (set, frozenset, list, tuple)):
        return "{" + ", ".join(cfg_value(x) for x in sorted(v, key=str)) + "}"
    raise ValueError(v)


def write_cfg(path, constants, invariants=(), view=None, constraint=None,
              action_constraint=None, spec="Spec"):
    lines = [f"SPECIFICATION {spec}", "CONSTANTS"]
    for k, v in constants.items():
        if isinstance(v, str) and v.startswith("<-"):
            lines.append(f"  {k} {v}")
        else:
            lines.append(f"  {k} = {cfg_value(v)}")
    if view:
        lines.append(f"VIEW {view}")
    if constraint:
        lines.append(f"CONSTRAINT {constraint}")
    if action_constraint:
        lines.append(f"ACTION_CONSTRAINT {action_constraint}")
    if invariants:
        lines.append("INVARIANTS " + " ".join(invariants))
    lines.append("CHECK_DEADLOCK FALSE")
    with open(path, "w") as f:
        f.write("\n".join(lines) + "\n")


def run_tlc(module, cfg, workdir, workers=8, extra=(), env=None, timeout=1800, heap=None):
    """Runs TLC on SPEC/module with cfg; returns (returncode, stdout)."""
    meta = os.path.join(workdir, "meta-" + hashlib.md5((cfg + str(time.time())).encode()).hexdigest()[:8])
    cmd = ["tlc", "-workers", str(workers), "-metadir", meta, "-cleanup", "-noGenerateSpecTE",
           "-config", cfg] + list(extra) + [module]
    e = dict(os.environ)
    if env:
        e.update(env)
    if heap:
        e["JAVA_TOOL_OPTIONS"] = (e.get("JAVA_TOOL_OPTIONS", "") + f" -Xmx{heap}").strip()
    try:
        r = subprocess.run(cmd, cwd=SPEC, env=e, stdout=subprocess.PIPE, stderr=subprocess.STDOUT,
                           text=True, timeout=timeout)
        out = r.stdout
        rc = r.returncode
    except subprocess.TimeoutExpired as ex:
        out = (ex.stdout or b"").decode() if isinstance(ex.stdout, bytes) else (ex.stdout or "")
        rc = 124
    shutil.rmtree(meta, ignore_errors=True)
    return rc, out


def parse_tlc_stats(out):
    st = {}
    m = re.search(r"(\d[\d,]*) states generated, (\d[\d,]*) distinct states found", out)
    if m:
        st["generated"] = int(m.group(1).replace(",", ""))
        st["distinct"] = int(m.group(2).replace(",", ""))
    m = re.search(r"depth of the complete state graph search is (\d+)", out)
    if m:
        st["depth"] = int(m.group(1))
    st["ok"] = "No error has been found" in out
    m = re.search(r"Invariant (\w+) is violated", out)
    if m:
        st["violated"] = m.group(1)
    return st


def tlc_verify(name, constants, invariants, workdir, workers=8, timeout=1500,
               module="MC_tree.tla", view="ViewNoH", constraint="Bounded", spec="Spec", simulate=None):
    """Design-level check: exhaustive within the constants (or, with simulate=(num, depth),
    invariants checked along random walks). Returns stats dict."""
    cfg = os.path.join(workdir, f"{name}-{module.split('.')[0]}-verify.cfg")
    write_cfg(cfg, constants, invariants=invariants, view=view, constraint=constraint, spec=spec)
    t0 = time.time()
    cex = os.path.join(workdir, f"{name}-{module.split('.')[0]}-cex.json")
    extra = ["-dumpTrace", "json", cex]
    if simulate:
        extra += ["-simulate", f"num={simulate[0]}", "-depth", str(simulate[1])]
    rc, out = run_tlc(module, cfg, workdir, workers=workers, timeout=timeout, extra=extra)
    st = parse_tlc_stats(out)
    if simulate:
        m = re.search(r"(\d+) states checked", out.replace(",", ""))
        st["generated"] = st["distinct"] = int(m.group(1)) if m else 0
        st["ok"] = rc == 0 and "violated" not in st
        st["mode"] = f"simulation num={simulate[0]} depth={simulate[1]}"
    st["wall_s"] = round(time.time() - t0, 1)
    # (killed for time or memory: the model run is incomplete, which the evidence says; the
    # behaviours are still generated and validated)
    st["timeout"] = rc in (124, -9, 137)
    st["constants"] = {k: (sorted(v, key=str) if isinstance(v, (set, frozenset)) else v)
                       for k, v in constants.items()}
    if rc not in (0, 124, -9, 137) and not st.get("violated"):
        log(out[-3000:])
        raise ToolError(f"TLC verification run failed rc={rc}")
    if st.get("violated"):
        st["counterexample"] = out[-6000:]
        try:
            with open(cex) as f:
                d = json.load(f)
            hs = [x[1].get("h", []) for x in d["counterexample"]["state"]]
            st["cex_ops"] = max(hs, key=len)
        except (OSError, KeyError, ValueError, IndexError):
            st["cex_ops"] = None
    return st


def extract_behaviours(out):
    """EDGE lines -> list of op lists. Keeps maximal behaviours only (drops a line
    that is a proper prefix of the next one - simulation prints every step)."""
    res = []
    prev = None
    for line in out.splitlines():
        if not line.startswith('<<"EDGE"'):
            continue
        m = re.match(r'<<"EDGE", (".*")>>$', line.strip())
        if not m:
            continue
        try:
            ops = json.loads(json.loads(m.group(1)))
        except json.JSONDecodeError:
            continue
        if prev is not None and len(ops) > len(prev) and ops[:len(prev)] == prev:
            res[-1] = ops
        else:
            res.append(ops)
        prev = ops
    return res


def tlc_generate_sim(name, constants, workdir, num, depth, sd, module="MC_tree.tla",
                     timeout=600):
    cfg = os.path.join(workdir, f"{name}-gen.cfg")
    c = dict(constants)
    c["SampleK"] = 1
    c.setdefault("MinLen", 1)
    c.setdefault("WriteBias", 3)
    write_cfg(cfg, c, view="ViewGen", constraint="Bounded", action_constraint="GenStep")
    rc, out = run_tlc(module, cfg, workdir, workers=1,
                      extra=["-simulate", f"num={num}", "-depth", str(depth), "-seed", str(sd)],
                      timeout=timeout)
    if rc not in (0, 124):
        log(out[-3000:])
        raise ToolError(f"TLC generation failed rc={rc}")
    return extract_behaviours(out)


def tlc_generate_edges(name, constants, workdir, sample_k, sd, module="MC_tree.tla",
                       timeout=900, max_lines=200000):
    """BFS edge cover of the bounded graph, one edge in sample_k printed."""
    cfg = os.path.join(workdir, f"{name}-edges.cfg")
    c = dict(constants)
    c["SampleK"] = sample_k
    c.setdefault("MinLen", 1)
    c["WriteBias"] = 1
    write_cfg(cfg, c, view="ViewGen", constraint="Bounded", action_constraint="GenStep")
    rc, out = run_tlc(module, cfg, workdir, workers=8, extra=["-seed", str(sd)], timeout=timeout)
    if rc not in (0, 124):
        log(out[-3000:])
        raise ToolError(f"TLC edge generation failed rc={rc}")
    st = parse_tlc_stats(out)
    res = []
    for line in out.splitlines():
        if line.startswith('<<"EDGE"'):
            m = re.match(r'<<"EDGE", (".*")>>$', line.strip())
            if m:
                try:
                    res.append(json.loads(json.loads(m.group(1))))
                except json.JSONDecodeError:
                    pass
            if len(res) >= max_lines:
                break
    return res, st


# ---------------------------------------------------------------- harness + validation

def harness_replay(behaviours, workdir, name, nkeys, extra_args=()):
    """behaviours: list of dicts {"id","ops",...} -> path of the trace file, summary."""
    inp = os.path.join(workdir, f"{name}-beh.ndjson")
    outp = os.path.join(workdir, f"{name}-trace.ndjson")
    with open(inp, "w") as f:
        for b in behaviours:
            f.write(json.dumps(b) + "\n")
    cmd = [HARNESS, "replay", "--in", inp, "--out", outp, "--nkeys", str(nkeys),
           "--scratch", os.path.join(workdir, f"{name}-trees")] + list(extra_args)
    r = subprocess.run(cmd, stdout=subprocess.PIPE, stderr=subprocess.PIPE, text=True)
    if r.returncode == 4:
        m = re.search(r"HANG beh=(\d+) step=(\d+)", r.stderr)
        if m:
            raise HarnessHang(int(m.group(1)), int(m.group(2)))
    if r.returncode != 0:
        log(r.stderr[-3000:])
        raise ToolError(f"harness replay failed rc={r.returncode}")
    summary = json.loads(r.stdout.strip().splitlines()[-1])
    return outp, summary


class HarnessHang(Exception):
    """An operation of the code under test did not return (90 s of CPU time): input line of
    the behaviour (0-based) and step (1-based, 0 = creating / opening the tree)."""

    def __init__(self, beh, step):
        super().__init__(f"behaviour {beh} step {step} did not return")
        self.beh = beh
        self.step = step


def split_trace(path, workdir, name, chunks):
    """Splits a trace at reset lines into <= chunks files. Returns list of
    (file, [behaviour ids in order], first line offsets)."""
    groups = []
    cur = []
    with open(path) as f:
        for line in f:
            if '"op":"reset"' in line or '"op": "reset"' in line:
                if cur:
                    groups.append(cur)
                cur = [line]
            else:
                cur.append(line)
    if cur:
        groups.append(cur)
    if not groups:
        return []
    chunks = max(1, min(chunks, len(groups)))
    # balance the chunks by bytes (long histories carry large states and cost far more per
    # line): heaviest behaviours first, each into the lightest chunk so far
    load = [0] * chunks
    assign = [[] for _ in range(chunks)]
    order = sorted(range(len(groups)), key=lambda gi: -sum(len(x) for x in groups[gi]))
    for gi in order:
        c = load.index(min(load))
        assign[c].append(gi)
        load[c] += sum(len(x) for x in groups[gi])
    files = []
    for c in range(chunks):
        gis = sorted(assign[c])
        if not gis:
            continue
        p = os.path.join(workdir, f"{name}-chunk{c}.ndjson")
        index = []  # line number (1-based) -> (group index global, step within group)
        with open(p, "w") as f:
            for gi in gis:
                for si, line in enumerate(groups[gi]):
                    f.write(line if line.endswith("\n") else line + "\n")
                    index.append((gi, si))
        files.append((p, index))
    return files


def validate_chunk(module, cfgname, path, nkeys, workdir, timeout=None):
    timeout = timeout or (1200 if os.environ.get("VERIF_TIER", "quick") == "quick" and not THOROUGH[0] else 6000)
    env = {"TRACE": path, "NKEYS": str(nkeys), "JAVA_TOOL_OPTIONS": JAVA_OPTS_TRACE}
    rc, out = run_tlc(module, os.path.join(SPEC, cfgname), workdir, workers=1, env=env,
                      timeout=timeout, heap="6g" if THOROUGH[0] else "3g")
    msgs = []
    for line in out.splitlines():
        line = line.strip()
        if line.startswith('"[') and line.endswith('"'):
            try:
                msgs.append(json.loads(json.loads(line)))
            except json.JSONDecodeError:
                pass
    st = parse_tlc_stats(out)
    ok = st.get("ok", False) and rc == 0
    if not ok and rc != 124:
        log(out[-3000:])
    return {"ok": ok, "rc": rc, "msgs": msgs, "states": st.get("distinct", 0), "out_tail": out[-1500:]}


def validate_trace(trace_path, workdir, name, nkeys, module="TraceLsm.tla",
                   cfgname="TraceLsm.cfg", par=8):
    files = split_trace(trace_path, workdir, name, par)
    results = []
    with ThreadPoolExecutor(max_workers=par) as ex:
        futs = [ex.submit(validate_chunk, module, cfgname, p, nkeys, workdir) for p, _ in files]
        for (p, index), fu in zip(files, futs):
            r = fu.result()
            r["index"] = index
            r["file"] = p
            results.append(r)
    msgs = []  # (kind, prop, behaviour index, step, detail)
    lines = 0
    for r in results:
        lines += len(r["index"])
        if not r["ok"]:
            raise ToolError(f"trace validation did not complete for {r['file']} rc={r['rc']}: "
                            + r["out_tail"][-600:])
        for m in r["msgs"]:
            kind, prop, i, what = m[0], m[1], m[2], m[3]
            if kind == "REJECT":
                raise ToolError(f"trace not fully consumed: {m}")
            gi, si = r["index"][i - 1]
            msgs.append({"kind": kind, "what": prop, "beh": gi, "step": si, "detail": what})
    return msgs, lines


# ---------------------------------------------------------------- verdicts, evidence

def load_known():
    if os.path.exists(KNOWN):
        with open(KNOWN) as f:
            return json.load(f)
    return {"findings": [], "fixed": []}


def save_replay(prop, behaviour, reason):
    os.makedirs(REPLAYS, exist_ok=True)
    blob = json.dumps({"property": prop, "behaviour": behaviour, "reason": reason}, sort_keys=True)
    hsh = hashlib.sha1(blob.encode()).hexdigest()[:12]
    p = os.path.join(REPLAYS, f"{prop}-{hsh}.json")
    with open(p, "w") as f:
        f.write(blob + "\n")
    return p


def write_evidence(prop, tier, level, coverage, wall_s, violations, assumptions):
    os.makedirs(EVIDENCE, exist_ok=True)
    ev = {"property_id": prop, "tier": tier, "seed": seed(), "level": level,
          "coverage": coverage, "assumptions": assumptions, "wall_s": round(wall_s, 1),
          "violations": violations}
    with open(os.path.join(EVIDENCE, f"{prop}.json"), "w") as f:
        json.dump(ev, f, indent=1, sort_keys=True)
        f.write("\n")
