"""C12: table cases. The case universe is enumerated here from the constants of
spec/TableFmt.tla (all strictly ordered streams over the keys x versions, with types
cycling through value / tombstone / weak tombstone / pointer), plus large streams around
the format's index boundaries; the harness writes each stream under several writer
settings and probes every read path; TLC (spec/TraceTable.tla) judges every result."""
import itertools
import json
import os
import random
import shutil
import subprocess
import time

import vlib
from vlib import log

TYPES = ["V", "T", "W", "I"]


def small_streams(keys, seqs, rng, limit):
    pairs = [(k, s) for k in keys for s in seqs]
    allsubs = []
    for n in range(1, len(pairs) + 1):
        for sub in itertools.combinations(pairs, n):
            allsubs.append(sub)
    rng.shuffle(allsubs)
    out = []
    for sub in allsubs[:limit]:
        st = sorted(sub, key=lambda p: (p[0], -p[1]))
        out.append([[k, s, TYPES[(k * 7 + s * 3 + i) % 4], 0] for i, (k, s) in enumerate(st)])
    for st in out:
        for j, e in enumerate(st):
            e[3] = (j % 50) + 1 if e[2] in ("V", "I") else 0
    return out


def big_stream(n, versions, rng):
    st = []
    j = 0
    for k in range(1, n + 1):
        nv = rng.choice(versions)
        for s in range(nv, 0, -1):
            t = rng.choice(["V", "V", "V", "T"])
            j += 1
            st.append([k, s, t, (j % 50) + 1 if t == "V" else 0])
    return st


def writer_settings(rng):
    return {"block_size": rng.choice([1, 64, 4096, 1 << 20]), "restart": rng.choice([1, 2, 16]),
            "hash_ratio": rng.choice([0.0, 0.75, 8.0]), "pidx": rng.random() < 0.4,
            "pflt": rng.random() < 0.4, "lz4": rng.random() < 0.4, "bloom": rng.choice([0, 1, 2]),
            "pin_filter": rng.random() < 0.7, "pin_index": rng.random() < 0.7,
            "cache": rng.choice([0, 4096, 1 << 22])}


def probes(stream, rng, exhaustive):
    keys = sorted({e[0] for e in stream})
    smax = max(e[1] for e in stream)
    pts = list(range(1, 2 * max(keys) + 2))
    if exhaustive:
        gets = [[x, s] for x in pts for s in list(range(0, smax + 3)) + [1000000]]
    else:
        gets = [[rng.choice(pts), rng.choice(list(range(0, smax + 3)) + [1000000])] for _ in range(120)]
        gets += [[2 * k, 1000000] for k in rng.sample(keys, min(60, len(keys)))]
        gets += [[2 * keys[-1], 1000000], [2 * keys[0], 1000000], [2 * keys[-1] + 1, 1000000], [1, 1000000]]
        # the tail of a block is where the u8 restart-pointer / hash-index limits bite
        gets += [[2 * k, 1000000] for k in keys[-12:]] + [[2 * k, 1000000] for k in keys[:4]]

    def bound():
        kd = rng.choice(["U", "I", "E"])
        return [kd, 0 if kd == "U" else rng.choice(pts)]
    pats = [[], ["B"], ["F", "B"], ["B", "F"], ["F", "F", "B"], ["B", "B", "F"]]
    ranges = [{"lo": ["U", 0], "hi": ["U", 0], "pat": p} for p in pats[:3]]
    for _ in range(14 if exhaustive else 8):
        ranges.append({"lo": bound(), "hi": bound(), "pat": rng.choice(pats)})
    return gets, ranges


def run(prop, tier):
    t0 = time.time()
    sd = vlib.seed()
    rng = random.Random(sd * 31337 + 5)
    work = vlib.scratch_dir()
    try:
        vlib.build_harness()
        # 1. the read algorithm of the model equals its definition (design level)
        cfg = os.path.join(vlib.SPEC, "TableFmt.cfg")
        rc, out = vlib.run_tlc("TableFmt.tla", cfg, work, workers=8, timeout=900)
        st = vlib.parse_tlc_stats(out)
        if not st.get("ok"):
            log(out[-3000:])
            raise vlib.ToolError("TableFmt model check failed")
        log(f"[{prop}] TableFmt: {st.get('distinct')} stream x partition states ok")
        # 2. cases
        nsmall, nset, nbig = (220, 2, 10) if tier == "quick" else (511, 6, 60)
        cases = []
        for si, stream in enumerate(small_streams([1, 2, 3], [0, 1, 2], rng, nsmall)):
            for r in range(nset):
                w = writer_settings(rng)
                gets, ranges = probes(stream, rng, True)
                cases.append({"id": f"s{si}/{r}", "stream": stream, "w": w, "g": rng.choice([0, 0, 7]),
                              "key_alpha": rng.choice([0, 1, 2, 3]), "val_alpha": rng.choice([0, 1, 2]),
                              "gets": gets, "ranges": ranges})
        # large streams: item counts around the restart-interval / hash-index boundaries of a
        # single block (u8 restart pointers), and multi-block tables with index partitions
        sizes = []
        for r in (1, 2, 16):
            for d in (-2, -1, 0, 1, 2):
                sizes.append((255 * r + d * r, r))
        rng.shuffle(sizes)
        for bi in range(nbig):
            n, r = sizes[bi % len(sizes)]
            stream = big_stream(n, [1] if bi % 2 == 0 else [1, 1, 2, 3], rng)
            w = writer_settings(rng)
            if bi % 2 == 0:
                w.update({"block_size": 1 << 20, "restart": r, "hash_ratio": rng.choice([0.75, 4.0, 8.0])})
            gets, ranges = probes(stream, rng, False)
            cases.append({"id": f"b{bi}", "stream": stream, "w": w, "g": 0,
                          "key_alpha": 0, "val_alpha": 0, "gets": gets, "ranges": ranges})
        inp = os.path.join(work, "cases.ndjson")
        outp = os.path.join(work, "cases-out.ndjson")
        with open(inp, "w") as f:
            for c in cases:
                f.write(json.dumps(c) + "\n")
        r = subprocess.run([vlib.HARNESS, "tablecase", "--in", inp, "--out", outp,
                            "--scratch", os.path.join(work, "tables")],
                           stdout=subprocess.PIPE, stderr=subprocess.PIPE, text=True)
        if r.returncode != 0:
            log(r.stderr[-3000:])
            raise vlib.ToolError("harness tablecase failed")
        log(f"[{prop}] {len(cases)} table cases written and probed t={round(time.time()-t0)}s")
        # 3. validation in chunks
        with open(outp) as f:
            lines = f.readlines()
        par = 8
        per = (len(lines) + par - 1) // par
        chunks = []
        for c in range(par):
            part = lines[c * per:(c + 1) * per]
            if part:
                p = os.path.join(work, f"tc{c}.ndjson")
                with open(p, "w") as f:
                    f.writelines(part)
                chunks.append((p, c * per))
        from concurrent.futures import ThreadPoolExecutor
        msgs = []
        with ThreadPoolExecutor(max_workers=par) as ex:
            futs = [(off, ex.submit(vlib.validate_chunk, "TraceTable.tla", "TraceTable.cfg", p, 0, work, 2400))
                    for p, off in chunks]
            for off, fu in futs:
                res = fu.result()
                if not res["ok"]:
                    raise vlib.ToolError("TraceTable validation did not complete: " + res["out_tail"][-500:])
                for m in res["msgs"]:
                    if m[0] == "REJECT":
                        raise vlib.ToolError(f"table cases not fully consumed: {m}")
                    msgs.append({"kind": m[0], "what": m[1], "case": off + m[2] - 1, "detail": m[3]})
        viols = [m for m in msgs if m["kind"] == "VIOL"]
        first = {}
        for m in viols:
            first.setdefault(m["case"], m)
        rcode = 0
        for ci, m in list(first.items())[:5]:
            p = vlib.save_replay(prop, cases[ci], {"what": m["what"]})
            print(f"VIOLATION property={prop} replay={p}")
            log(f"[{prop}] {m['what']} case {cases[ci]['id']}: {json.dumps(m['detail'])[:500]}")
            rcode = 1
        nget = sum(len(c["gets"]) for c in cases)
        nrange = sum(len(c["ranges"]) for c in cases)
        cov = {
            "states": st.get("distinct", 1), "transitions": st.get("generated", 1),
            "model": "spec/TableFmt.tla: point-read algorithm = definition for all streams over 3 keys x 3 versions, all block partitions, all probes",
            "traces_validated_against_impl": len(cases),
            "evaluations": len(cases) + nget + nrange,
            "distinct_nontrivial": len({json.dumps([c["stream"], c["w"]], sort_keys=True) for c in cases}),
            "rule": "a case = (stream, writer settings, concretisation); distinct by stream and settings; every case is probed by get at every (key and gap, seqno) / sampled for large streams, full scans from both ends, the compaction scanner, ranged scans with mixed next/next_back, metadata",
            "point_probes": nget, "range_probes": nrange,
            "samples": [{k: v for k, v in cases[i].items() if k in ("id", "stream", "w")} for i in (0, len(cases) // 3)],
            "large_streams": sum(1 for c in cases if c["id"].startswith("b")),
            "exhaustive": tier == "thorough",
        }
        cov["samples"] = [dict(s, stream=s["stream"][:12]) for s in cov["samples"]]
        vlib.write_evidence(prop, tier, "model_checking", cov, time.time() - t0, len(first),
                            ["the stream universe is the one of spec/TableFmt.tla plus large single-block and multi-block streams; key/value bytes by the concretisations of harness/src/model.rs",
                             "the harness table writer/reader plumbing (Writer, Table::recover) is trusted"])
        log(f"[{prop}] {len(cases)} cases, {nget} point probes, {nrange} range probes, {len(first)} violations, {round(time.time()-t0)}s")
        return rcode
    finally:
        if not os.environ.get("VERIF_KEEP"):
            shutil.rmtree(work, ignore_errors=True)
