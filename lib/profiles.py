"""Per-property profiles of the tree pipeline (constants of the TLC runs, enabled
operations, which predicates decide the property)."""

BASE = {"Keys": {1, 2}, "Vals": {1, 2, 3}, "WeakKeys": set(), "MaxSeq": 5, "MaxSealed": 2, "MaxTables": 3,
        "MaxSnaps": 0, "MaxHist": 4, "DestLevels": {0, 1, 6}, "SampleK": 1,
        "MinLen": 1, "WriteBias": 1}

ASSUME = [
    "usage protocol of DESIGN.md section 5 (seqnos from the counter handed to Config, snapshots read from visible_seqno, watermarks below every held snapshot)",
    "TLC explores the LsmTree model exhaustively only within the stated constants; larger histories are sampled by simulation",
    "the harness projection (lsm_tree::verif::dump, Table::iter, Memtable::iter) reports the real state faithfully",
    "model keys/values are mapped to bytes by the concretisations in harness/src/model.rs",
]

ALL_INV = ["ReadsRefine", "ScansRefine", "StructureSound", "NoInvention", "DurableKept",
           "HiSound", "SnapsResolve"]


def c(**kw):
    d = dict(BASE)
    d.update(kw)
    return d


CORE_OPS = {"write", "batch", "rotate", "flush", "merge", "move", "major", "reopen"}

WEAK_OPS = {"write", "rotate", "flush", "merge", "move", "major", "reopen"}

PROFILES = {
    "C13": {
        "nkeys": 2,
        "invariants": ALL_INV,
        "viol_kinds": ["READ", "SCAN", "OPFAIL"],
        "phys_count": 8, "key_alphas": [0, 2],
        "assumptions": ASSUME,
        "quick": {
            "verify": {"constants": c(Keys={1}, WeakKeys={1}, Vals={1, 2, 3}, MaxSeq=7, MaxSealed=1,
                                      MaxHist=3, DestLevels={0, 6}, Ops=WEAK_OPS)},
            "gen": [
                {"mode": "sim", "num": 40, "depth": 22,
                 "constants": c(Keys={1, 2}, WeakKeys={1, 2}, Vals={1, 2, 3}, MaxSeq=16, MaxTables=5,
                                MaxHist=20, MaxSealed=1, Ops=WEAK_OPS, WriteBias=2)},
            ],
        },
        "thorough": {
            "verify": {"constants": c(Keys={1}, WeakKeys={1}, Vals={1, 2, 3}, MaxSeq=9, MaxSealed=2,
                                      MaxHist=3, Ops=WEAK_OPS), "timeout": 3000, "workers": 12},
            "gen": [
                {"mode": "sim", "num": 800, "depth": 30,
                 "constants": c(Keys={1, 2}, WeakKeys={1, 2}, Vals={1, 2, 3}, MaxSeq=24, MaxTables=6,
                                MaxHist=30, MaxSealed=2, Ops=WEAK_OPS, WriteBias=2)},
            ],
        },
    },
    "C01": {
        "nkeys": 3,
        "invariants": ALL_INV,
        "viol_kinds": ["READ", "OPFAIL"],
        "phys_count": 24, "key_alphas": [0, 1, 2, 3],
        "assumptions": ASSUME,
        "quick": {
            "verify": {"constants": c(Ops=CORE_OPS - {"batch"}, MaxSeq=5, MaxSealed=1, MaxHist=3)},
            "gen": [
                {"mode": "sim", "num": 60, "depth": 22,
                 "constants": c(MaxSeq=14, MaxTables=5, MaxHist=20, MaxSealed=1,
                                Ops=CORE_OPS - {"batch"}, WriteBias=3)},
                {"mode": "edges", "sample_k": 60, "max": 2500,
                 "constants": c(Ops=CORE_OPS - {"batch"}, MaxSeq=6, MaxSealed=1, MaxHist=3, MinLen=9)},
            ],
        },
        "thorough": {
            "verify": {"constants": c(Ops=CORE_OPS, MaxSeq=6, MaxSealed=1, MaxHist=3), "timeout": 3000,
                       "workers": 12},
            "gen": [
                {"mode": "sim", "num": 1500, "depth": 30,
                 "constants": c(Keys={1, 2, 3}, MaxSeq=24, MaxTables=6, MaxHist=30, Ops=CORE_OPS, WriteBias=4)},
                {"mode": "edges", "sample_k": 6, "max": 80000, "timeout": 2400,
                 "constants": c(Ops=CORE_OPS - {"batch"}, MaxSeq=6, MaxSealed=1, MaxHist=3, MinLen=9)},
            ],
        },
    },
}
