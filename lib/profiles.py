"""Per-property profiles of the tree pipeline (constants of the TLC runs, enabled
operations, which predicates decide the property)."""

BASE = {"Keys": {1, 2}, "Vals": {1, 2, 3}, "WeakKeys": set(), "OnceKeys": set(), "FilterRules": "<- NoRules", "BigVals": set(), "MaxSeq": 5, "MaxSealed": 1,
        "MaxTables": 3, "MaxSnaps": 0, "MaxHist": 3, "DestLevels": {0, 1, 6}, "SampleK": 1,
        "MinLen": 1, "WriteBias": 1}

ASSUME = [
    "usage protocol of DESIGN.md section 5 (seqnos from the counter handed to Config, snapshots read from visible_seqno, watermarks below every held snapshot)",
    "TLC explores the LsmTree model exhaustively only within the stated constants; larger histories are sampled by simulation and by the free-running driver",
    "the harness projection (lsm_tree::verif::dump, Table::iter, Memtable::iter) reports the real state faithfully",
    "model keys/values are mapped to bytes by the concretisations in harness/src/model.rs",
]

ALL_INV = ["ReadsRefine", "ScansRefine", "StructureSound", "NoInvention", "DurableKept",
           "HiSound", "SnapsResolve"]


def c(**kw):
    d = dict(BASE)
    d.update(kw)
    return d


CORE_OPS = {"write", "batch", "rotate", "flush", "merge", "move", "major", "reopen"}
CORE1 = CORE_OPS - {"batch"}
SNAP_OPS = {"write", "rotate", "flush", "merge", "move", "major", "snap"}
# position-free operations: the real strategies choose, the trace spec checks the choice
BUILTIN_OPS = {"write", "rotate", "flush", "leveled", "major", "reopen"}
WEAK_OPS = {"write", "rotate", "flush", "merge", "move", "major", "reopen"}

DRIVE_W = {"write": 10, "batch": 1, "rotate": 2, "flush": 3, "leveled": 5, "major": 0.3, "reopen": 0.3}
DRIVE_SNAP_W = dict(DRIVE_W, snap=0.8, release=0.6)


def blob(threshold, file_target, staleness, age_cutoff, lz4=False):
    return {"threshold": threshold, "file_target": file_target, "staleness": staleness,
            "age_cutoff": age_cutoff, "lz4": lz4}


# key-value separation lattice: thresholds on both sides of the value sizes, one blob per
# file and shared files, staleness / age cut-off extremes, blob compression
BLOBS = [blob(64, 1, 0.0001, 1.0), blob(64, 1 << 26, 0.5, 1.0), blob(1, 1, 0.0001, 0.5, True),
         blob(64, 300, 1.0, 1.0), blob(64, 1, 0.0001, 0.0), blob(100000, 1, 0.5, 1.0),
         blob(64, 1 << 26, 0.0001, 1.0, True), blob(1, 250, 0.3, 1.0)]


def tree_profile(nkeys, viol_kinds, quick_verify, quick_gen, thorough_verify, thorough_gen, **kw):
    p = {"nkeys": nkeys, "invariants": ALL_INV, "viol_kinds": viol_kinds,
         "phys_count": 24, "key_alphas": [0, 1, 2, 3], "assumptions": ASSUME,
         "quick": {"verify": {"constants": quick_verify}, "gen": quick_gen},
         "thorough": {"verify": {"constants": thorough_verify, "timeout": 3000, "workers": 12},
                      "gen": thorough_gen}}
    p.update(kw)
    return p


BLOB_INV = ["GcExactM", "NoDanglingM", "IdsFresh", "ReadsRefine", "StructureSound"]


def blob_model(timeout=900, workers=8, **kw):
    """Constants of the design-level key-value separation model (spec/LsmBlobModel.tla)."""
    d = {k: v for k, v in BASE.items() if k not in ("SampleK", "MinLen", "WriteBias")}
    d.update({"Vals": {2}, "BigVals": {2}, "BlobPerFile": True, "StaleNum": 1, "StaleDen": 2,
              "ReopenAboveGc": True, "DestLevels": {1, 6}})
    d.update(kw)
    return {"constants": d, "invariants": BLOB_INV, "timeout": timeout, "workers": workers}


def sim(num, depth, **kw):
    return {"mode": "sim", "num": num, "depth": depth, "constants": c(**kw)}


def edges(sample_k, mx, timeout=600, **kw):
    return {"mode": "edges", "sample_k": sample_k, "max": mx, "timeout": timeout, "constants": c(**kw)}


def hugeflush(count):
    return {"mode": "hugeflush", "count": count}


def deep(count):
    return {"mode": "deep", "count": count}


def drv(count, steps, weights, nkeys=None, **kw):
    d = {"mode": "drive", "count": count, "steps": steps, "weights": weights, "kw": kw}
    if nkeys:
        d["nkeys"] = nkeys
    return d


PROFILES = {
    # C01 point reads at the newest snapshot
    "C01": tree_profile(
        6, ["READ", "OPFAIL"],
        c(Ops=CORE1, MaxSeq=5),
        [sim(50, 22, MaxSeq=14, MaxTables=5, MaxHist=20, MaxSealed=2, Ops=CORE1, WriteBias=3),
         edges(20, 2000, Ops=CORE1, MaxSeq=5, MinLen=8),
         drv(24, 160, DRIVE_W), deep(2)],
        c(Ops=CORE1, MaxSeq=6),
        [sim(150, 30, Keys={1, 2, 3}, MaxSeq=24, MaxTables=6, MaxHist=30, Ops=CORE_OPS, WriteBias=4),
         edges(6, 80000, timeout=2400, Ops=CORE1, MaxSeq=6, MinLen=9),
         drv(120, 300, DRIVE_W), deep(12)]),
    # C02 snapshots keep their view
    "C02": tree_profile(
        6, ["READ", "SCAN", "SCANX", "SNAPRES", "OPFAIL"],
        c(Ops=SNAP_OPS, MaxSeq=5, MaxSnaps=1, MaxHist=4),
        [sim(50, 24, MaxSeq=16, MaxTables=5, MaxHist=20, MaxSnaps=2, Ops=SNAP_OPS | {"reopen"}, WriteBias=3),
         edges(40, 2000, Ops=SNAP_OPS, MaxSeq=5, MaxSnaps=1, MaxHist=4, MinLen=8),
         drv(24, 160, DRIVE_SNAP_W)],
        c(Ops=SNAP_OPS, MaxSeq=6, MaxSnaps=2, MaxHist=5),
        [sim(150, 30, Keys={1, 2, 3}, MaxSeq=24, MaxTables=6, MaxHist=30, MaxSnaps=2,
             Ops=SNAP_OPS | {"reopen"}, WriteBias=4),
         edges(8, 80000, timeout=2400, Ops=SNAP_OPS, MaxSeq=5, MaxSnaps=2, MaxHist=4, MinLen=8),
         drv(120, 300, DRIVE_SNAP_W)],
        blobs=[None, None, None, BLOBS[1], BLOBS[7]], val_alphas=[0, 1, 2], scans={"prob": 0.25, "burst": 1}),
    # C03 scans: bounds, prefixes, both ends, overlay
    "C03": tree_profile(
        4, ["SCAN", "SCANX", "OPFAIL"],
        c(Ops=SNAP_OPS, MaxSeq=5, MaxSnaps=1, MaxHist=4),
        [sim(30, 22, Keys={1, 2, 3}, MaxSeq=14, MaxTables=5, MaxHist=20, MaxSnaps=2, MaxSealed=2,
             Ops=SNAP_OPS | {"reopen", "ingest"}, WriteBias=3),
         drv(24, 120, dict(DRIVE_SNAP_W, ingest=1.0))],
        c(Ops=SNAP_OPS, MaxSeq=6, MaxSnaps=2, MaxHist=5),
        [sim(80, 30, Keys={1, 2, 3}, MaxSeq=24, MaxTables=6, MaxHist=30, MaxSnaps=2, MaxSealed=2,
             Ops=SNAP_OPS | {"reopen", "ingest"}, WriteBias=4),
         drv(100, 300, dict(DRIVE_SNAP_W, ingest=1.0))],
        scans={"prob": 0.6, "burst": 2}, blobs=[None, None, None, BLOBS[1], BLOBS[7]], val_alphas=[0, 1]),
    # C04 reopen restores exactly the flushed state
    "C04": tree_profile(
        6, ["READ", "SCAN", "INVENT", "LOST", "OPFAIL"],
        c(Ops=CORE1, MaxSeq=5),
        [sim(50, 24, MaxSeq=16, MaxTables=5, MaxHist=20, Ops=CORE1 | {"ingest"}, WriteBias=3),
         edges(20, 2000, Ops=CORE1, MaxSeq=5, MinLen=8),
         drv(24, 160, dict(DRIVE_W, reopen=2)),
         # reopen in the middle of a multi-level structure with several overlapping L0 runs
         drv(12, 160, dict(write=10, flush=5, leveled=3, reopen=2),
             leveled_params=[(2, 1), (3, 1), (4, 1), (2, 150), (3, 150)])],
        c(Ops=CORE1 | {"ingest"}, MaxSeq=5, MaxTables=4),
        [sim(150, 30, Keys={1, 2, 3}, MaxSeq=24, MaxTables=6, MaxHist=30, Ops=CORE_OPS | {"ingest"}, WriteBias=4),
         edges(6, 80000, timeout=2400, Ops=CORE1, MaxSeq=6, MinLen=9),
         drv(120, 300, dict(DRIVE_W, reopen=2)),
         drv(60, 300, dict(write=10, flush=5, leveled=3, reopen=2),
             leveled_params=[(2, 1), (3, 1), (4, 1), (2, 150), (3, 150)])],
        blobs=[None, None, None, BLOBS[1], BLOBS[0], BLOBS[7]], val_alphas=[0, 1, 2]),
    # C07 structure of every published version, metadata
    "C07": tree_profile(
        6, ["STRUCT", "META", "OPFAIL"],
        c(Ops=CORE1, MaxSeq=5),
        [sim(50, 22, MaxSeq=14, MaxTables=5, MaxHist=20, Ops=CORE1 | {"ingest"}, WriteBias=3),
         edges(20, 2000, Ops=CORE1, MaxSeq=5, MinLen=8),
         drv(24, 160, dict(DRIVE_W, ingest=0.5)),
         # many L0 runs with nested key ranges under the real Leveled strategy (tiny targets:
         # one table per key, every level over its size, so each choice moves or merges down)
         drv(16, 160, dict(write=10, flush=5, leveled=3, reopen=0.2),
             leveled_params=[(2, 1), (3, 1), (4, 1), (2, 150), (3, 150)])],
        c(Ops=CORE1, MaxSeq=6),
        [sim(150, 30, Keys={1, 2, 3}, MaxSeq=24, MaxTables=6, MaxHist=30, Ops=CORE_OPS | {"ingest"}, WriteBias=4),
         edges(6, 80000, timeout=2400, Ops=CORE1, MaxSeq=6, MinLen=9),
         drv(120, 300, dict(DRIVE_W, ingest=0.5)),
         drv(80, 300, dict(write=10, flush=5, leveled=3, reopen=0.2),
             leveled_params=[(2, 1), (3, 1), (4, 1), (2, 150), (3, 150)])]),
    # C08 key-value separation is invisible
    "C08": tree_profile(
        6, ["READ", "SCAN", "SCANX", "SNAPRES", "DANGLE", "PTR", "INVENT", "LOST", "OPFAIL"],
        c(Ops=CORE1 | {"snap"}, MaxSeq=4, MaxSnaps=1, BigVals={2, 3}),
        [sim(40, 24, MaxSeq=16, MaxTables=5, MaxHist=20, MaxSnaps=2, MaxSealed=2, BigVals={2, 3},
             Ops=CORE1 | {"snap"}, WriteBias=3),
         drv(32, 160, DRIVE_SNAP_W)],
        c(Ops=CORE1 | {"snap"}, MaxSeq=6, MaxSnaps=1, BigVals={2, 3}),
        [sim(120, 30, Keys={1, 2, 3}, MaxSeq=24, MaxTables=6, MaxHist=30, MaxSnaps=2, MaxSealed=2,
             BigVals={2, 3}, Ops=CORE1 | {"snap"}, WriteBias=4),
         drv(120, 300, DRIVE_SNAP_W)],
        blobs=BLOBS, val_alphas=[1, 1, 2], scans={"prob": 0.3, "burst": 1},
        regress=["findings/C09-blob-id-reuse.replay.json"]),
    # C09 blob garbage statistics
    "C09": tree_profile(
        6, ["GC", "STALE", "LINKS", "DEAD", "PTR", "OPFAIL"],
        c(Ops=CORE1, MaxSeq=5, BigVals={2, 3}),
        [sim(8, 24, MaxSeq=16, MaxTables=5, MaxHist=20, MaxSealed=2, BigVals={2, 3},
             Ops=CORE1 | {"droprange"}, WriteBias=3),
         drv(32, 160, dict(DRIVE_W, droprange=0.6)), hugeflush(1)],
        c(Ops=CORE1, MaxSeq=6, BigVals={2, 3}),
        [sim(120, 30, Keys={1, 2, 3}, MaxSeq=24, MaxTables=6, MaxHist=30, MaxSealed=2,
             BigVals={2, 3}, Ops=CORE1 | {"droprange"}, WriteBias=4),
         drv(120, 300, dict(DRIVE_W, droprange=0.6)), hugeflush(6)],
        blobs=BLOBS, val_alphas=[1, 1, 2],
        regress=["findings/C09-blob-id-reuse.replay.json", "findings/C09-with-dropped-ondisk.replay.json"]),
    # C11 physical tuning and cache sharing
    "C11": tree_profile(
        6, ["READ", "SCAN", "SCANX", "OPFAIL"],
        c(Ops=CORE1, MaxSeq=4),
        [sim(12, 22, MaxSeq=14, MaxTables=5, MaxHist=20, MaxSealed=2, Ops=CORE1 | {"snap"}, MaxSnaps=1, WriteBias=3),
         drv(12, 140, DRIVE_SNAP_W), deep(2)],
        c(Ops=CORE1, MaxSeq=5),
        [sim(20, 30, Keys={1, 2, 3}, MaxSeq=24, MaxTables=6, MaxHist=30, MaxSealed=2, Ops=CORE1 | {"snap"},
             MaxSnaps=1, WriteBias=4),
         drv(40, 300, DRIVE_SNAP_W), deep(12)],
        phys_count=96, replicate=4, harness_args=["--share-pairs"], scans={"prob": 0.4, "burst": 2},
        val_alphas=[0, 1, 2], blobs=[None, BLOBS[1], BLOBS[7], None, BLOBS[6], BLOBS[0]]),
    # C13 weak deletes under the single-delete discipline
    "C13": tree_profile(
        4, ["READ", "SCAN", "OPFAIL"],
        c(Keys={1}, WeakKeys={1}, MaxSeq=7, DestLevels={0, 6}, Ops=WEAK_OPS),
        [sim(40, 22, WeakKeys={1, 2}, MaxSeq=16, MaxTables=5, MaxHist=20, Ops=WEAK_OPS, WriteBias=2),
         drv(16, 160, DRIVE_W, weak_keys=(1, 2, 3))],
        c(Keys={1}, WeakKeys={1}, MaxSeq=9, MaxSealed=2, Ops=WEAK_OPS),
        [sim(80, 30, WeakKeys={1, 2}, MaxSeq=24, MaxTables=6, MaxHist=30, MaxSealed=2, Ops=WEAK_OPS, WriteBias=2),
         drv(100, 300, DRIVE_W, weak_keys=(1, 2, 3))],
        phys_count=8, key_alphas=[0, 2], regress=["findings/C13-weak-pair-drain.replay.json"]),
    # C14 bulk ingestion
    "C14": tree_profile(
        4, ["READ", "SCAN", "SCANX", "SNAPRES", "INVENT", "LOST", "OPFAIL"],
        c(Ops={"write", "rotate", "flush", "major", "snap", "ingest"}, MaxSeq=4, MaxSnaps=1, MaxHist=4,
          DestLevels={6}),
        [sim(40, 24, MaxSeq=18, MaxTables=5, MaxHist=20, MaxSnaps=2, MaxSealed=2,
             Ops=SNAP_OPS | {"reopen", "ingest"}, WriteBias=3),
         drv(24, 140, dict(DRIVE_SNAP_W, ingest=2.5))],
        c(Ops=SNAP_OPS | {"ingest"}, MaxSeq=5, MaxSnaps=1, MaxHist=4, DestLevels={0, 6}),
        [sim(100, 30, Keys={1, 2, 3}, MaxSeq=26, MaxTables=6, MaxHist=30, MaxSnaps=2, MaxSealed=2,
             Ops=SNAP_OPS | {"reopen", "ingest"}, WriteBias=4),
         drv(100, 300, dict(DRIVE_SNAP_W, ingest=2.5))],
        scans={"prob": 0.35, "burst": 1}),
    # C15 drop_range and clear
    "C15": tree_profile(
        4, ["READ", "SCAN", "SNAPRES", "OPFAIL"],
        c(Ops={"write", "rotate", "flush", "merge", "snap", "droprange", "clear"}, MaxSeq=4, MaxSnaps=1,
          MaxHist=4, DestLevels={6}),
        [sim(12, 24, MaxSeq=18, MaxTables=5, MaxHist=20, MaxSnaps=2, MaxSealed=2,
             Ops=SNAP_OPS | {"reopen", "droprange", "clear"}, WriteBias=3),
         drv(24, 140, dict(DRIVE_SNAP_W, droprange=2.0, clear=0.5))],
        c(Ops=SNAP_OPS | {"droprange", "clear"}, MaxSeq=5, MaxSnaps=2, MaxHist=4, DestLevels={0, 6}),
        [sim(100, 30, Keys={1, 2, 3}, MaxSeq=26, MaxTables=6, MaxHist=30, MaxSnaps=2, MaxSealed=2,
             Ops=SNAP_OPS | {"reopen", "droprange", "clear"}, WriteBias=4),
         drv(100, 300, dict(DRIVE_SNAP_W, droprange=2.0, clear=0.5))],
        regress=["findings/C15-leveled-empty-next-level.replay.json"],
        blobs=[None, None, None, BLOBS[1], BLOBS[0]], val_alphas=[0, 1, 2]),
    # C17 compaction filters
    "C17": tree_profile(
        6, ["READ", "SCAN", "SNAPRES", "OPFAIL", "DANGLE", "PTR", "GC", "INVENT"],
        c(Ops={"write", "rotate", "flush", "merge", "major", "snap"}, Vals={1, 2, 3, 4, 5, 6}, MaxSeq=5,
          MaxSnaps=1, MaxHist=4, DestLevels={0, 6}, OnceKeys={2}, FilterRules="<- RulesB"),
        [drv(40, 140, dict(DRIVE_SNAP_W, major=1.5, reopen=0.5), once_keys=(5, 6), filters=True)],
        c(Ops={"write", "rotate", "flush", "merge", "major", "snap"}, Vals={1, 2, 3, 4, 5, 6}, MaxSeq=6,
          MaxSnaps=1, MaxHist=4, DestLevels={0, 6}, OnceKeys={2}, FilterRules="<- RulesB"),
        [drv(150, 300, dict(DRIVE_SNAP_W, major=1.5, reopen=0.5), once_keys=(5, 6), filters=True)],
        blobs=[None, None] + BLOBS, val_alphas=[1]),
    # C19 FIFO compaction
    "C19": tree_profile(
        8, ["FIFO", "READ", "SCAN", "OPFAIL", "INVENT"],
        c(Ops={"write", "rotate", "flush", "reopen"}, MaxSeq=6, MaxTables=3),
        [{"mode": "fifo", "count": 120}],
        c(Ops={"write", "rotate", "flush", "reopen"}, Keys={1, 2, 3}, MaxSeq=7, MaxTables=4),
        [{"mode": "fifo", "count": 3000}],
        blobs=[None, None, BLOBS[0], BLOBS[1], BLOBS[6]], val_alphas=[1], key_alphas=[0, 1]),
    # C20 obsolete files reclaimed, nothing live deleted
    "C20": tree_profile(
        4, ["FILES", "DIRCLEAN", "DANGLE", "PTR", "OPFAIL"],
        c(Ops=CORE1 | {"snap"}, MaxSeq=4, MaxSnaps=1),
        [sim(8, 24, MaxSeq=16, MaxTables=5, MaxHist=20, MaxSnaps=2, MaxSealed=2, BigVals={2, 3},
             Ops=CORE1 | {"snap", "clear", "droprange", "ingest", "litter"}, WriteBias=3),
         drv(24, 160, dict(DRIVE_SNAP_W, clear=0.4, droprange=0.8, ingest=0.5, major=1.0, reopen=0.8), litter=0.6)],
        c(Ops=CORE1 | {"snap"}, MaxSeq=6, MaxSnaps=1),
        [sim(80, 30, Keys={1, 2, 3}, MaxSeq=24, MaxTables=6, MaxHist=30, MaxSnaps=2, MaxSealed=2,
             BigVals={2, 3}, Ops=CORE1 | {"snap", "clear", "droprange", "ingest", "litter"}, WriteBias=4),
         drv(100, 300, dict(DRIVE_SNAP_W, clear=0.4, droprange=0.8, ingest=0.5, major=1.0, reopen=0.8), litter=0.6)],
        blobs=[None, None] + BLOBS, val_alphas=[1], regress=["findings/C20-clear-leaves-files.replay.json"]),
    # C18 sequence number high-water marks
    "C18": tree_profile(
        6, ["HI", "HIA"],
        c(Ops=CORE1, MaxSeq=5),
        [sim(50, 22, MaxSeq=14, MaxTables=5, MaxHist=20, Ops=CORE1 | {"ingest", "clear", "pair"}, WriteBias=3),
         drv(24, 160, dict(DRIVE_W, ingest=0.7, clear=0.2, droprange=0.5))],
        c(Ops=CORE1 | {"ingest"}, MaxSeq=5, MaxTables=4),
        [sim(150, 30, Keys={1, 2, 3}, MaxSeq=24, MaxTables=6, MaxHist=30,
             Ops=CORE_OPS | {"ingest", "clear", "pair"}, WriteBias=4),
         drv(120, 300, dict(DRIVE_W, ingest=0.7, clear=0.2, droprange=0.5))]),
}

# design-level key-value separation model (spec/LsmBlobModel.tla) for C08 / C09
_BM_OPS = {"write", "rotate", "flush", "major", "reopen"}
PROFILES["C08"]["quick"]["blob_model"] = blob_model(
    Ops={"write", "rotate", "flush", "major", "snap"}, MaxSeq=5, MaxSnaps=1, MaxHist=3, DestLevels={6})
PROFILES["C08"]["thorough"]["blob_model"] = blob_model(
    timeout=3000, workers=12, Vals={1, 2}, MaxSeq=5, MaxSnaps=1, MaxHist=3,
    Ops={"write", "rotate", "flush", "merge", "major", "droprange", "reopen", "snap"})
PROFILES["C09"]["quick"]["blob_model"] = blob_model(
    Ops=_BM_OPS, MaxSeq=5, MaxHist=2, DestLevels={6}, BlobPerFile=False)
PROFILES["C09"]["thorough"]["blob_model"] = blob_model(
    timeout=3000, workers=12, Ops=_BM_OPS | {"droprange"}, MaxSeq=6, MaxHist=2, DestLevels={6},
    BlobPerFile=False)

# design-level FIFO strategy model (spec/LsmFifo.tla, MC_fifo.tla) for C19
_FIFO_Q = {"MaxTables": 3, "Times": {1, 2, 3}, "Sizes": {1, 2}, "BlobBytes": {0, 2}, "Limits": {0, 1, 3, 5, 9},
           "Ttls": {0, 1, 2}, "Nows": {0, 2, 3, 4}, "ExtraBlob": {0, 1}}
_FIFO_T = {"MaxTables": 4, "Times": {1, 2, 3}, "Sizes": {1, 2}, "BlobBytes": {0, 2}, "Limits": {0, 1, 3, 5, 9, 14},
           "Ttls": {0, 1, 2, 5}, "Nows": {0, 2, 3, 4, 6}, "ExtraBlob": {0, 1}}
PROFILES["C19"]["quick"]["fifo_model"] = {"constants": _FIFO_Q, "apalache_maxlen": 4}
PROFILES["C19"]["thorough"]["fifo_model"] = {"constants": _FIFO_T, "timeout": 3000, "workers": 12,
                                             "apalache_maxlen": 8, "apalache_timeout": 3000}
# the same model with a compaction filter that writes fresh blobs / removes separated values (C17)
PROFILES["C17"]["quick"]["blob_model"] = blob_model(
    Ops=_BM_OPS, Vals={1, 2}, FilterRules="<- RulesBlob", MaxSeq=4, MaxHist=2, DestLevels={6})
PROFILES["C17"]["thorough"]["blob_model"] = blob_model(
    timeout=3000, workers=12, Ops=_BM_OPS, Vals={1, 2}, FilterRules="<- RulesBlob", MaxSeq=6, MaxHist=2,
    DestLevels={6})

