"""Per-property profiles of the tree pipeline (constants of the TLC runs, enabled
operations, which predicates decide the property)."""

BASE = {"Keys": {1, 2}, "Vals": {1, 2, 3}, "WeakKeys": set(), "MaxSeq": 5, "MaxSealed": 1,
        "MaxTables": 3, "MaxSnaps": 0, "MaxHist": 3, "DestLevels": {0, 1, 6}, "SampleK": 1,
        "MinLen": 1, "WriteBias": 1}

ASSUME = [
    "usage protocol of DESIGN.md section 5 (seqnos from the counter handed to Config, snapshots read from visible_seqno, watermarks below every held snapshot)",
    "TLC explores the LsmTree model exhaustively only within the stated constants; larger histories are sampled by simulation and by the free-running driver",
    "the harness projection (lsm_tree::verif::dump, Table::iter, Memtable::iter) reports the real state faithfully",
    "model keys/values are mapped to bytes by the concretisations in harness/src/model.rs",
]

ALL_INV = ["ReadsRefine", "ScansRefine", "StructureSound", "NoInvention", "DurableKept",
           "HiSound", "SnapsResolve"]


def c(**kw):
    d = dict(BASE)
    d.update(kw)
    return d


CORE_OPS = {"write", "batch", "rotate", "flush", "merge", "move", "major", "reopen"}
CORE1 = CORE_OPS - {"batch"}
SNAP_OPS = {"write", "rotate", "flush", "merge", "move", "major", "snap"}
# position-free operations: the real strategies choose, the trace spec checks the choice
BUILTIN_OPS = {"write", "rotate", "flush", "leveled", "major", "reopen"}
WEAK_OPS = {"write", "rotate", "flush", "merge", "move", "major", "reopen"}

DRIVE_W = {"write": 10, "batch": 1, "rotate": 2, "flush": 3, "leveled": 5, "major": 0.3, "reopen": 0.3}
DRIVE_SNAP_W = dict(DRIVE_W, snap=0.8, release=0.6)


def tree_profile(nkeys, viol_kinds, quick_verify, quick_gen, thorough_verify, thorough_gen, **kw):
    p = {"nkeys": nkeys, "invariants": ALL_INV, "viol_kinds": viol_kinds,
         "phys_count": 24, "key_alphas": [0, 1, 2, 3], "assumptions": ASSUME,
         "quick": {"verify": {"constants": quick_verify}, "gen": quick_gen},
         "thorough": {"verify": {"constants": thorough_verify, "timeout": 3000, "workers": 12},
                      "gen": thorough_gen}}
    p.update(kw)
    return p


def sim(num, depth, **kw):
    return {"mode": "sim", "num": num, "depth": depth, "constants": c(**kw)}


def edges(sample_k, mx, timeout=600, **kw):
    return {"mode": "edges", "sample_k": sample_k, "max": mx, "timeout": timeout, "constants": c(**kw)}


def drv(count, steps, weights, nkeys=None, **kw):
    d = {"mode": "drive", "count": count, "steps": steps, "weights": weights, "kw": kw}
    if nkeys:
        d["nkeys"] = nkeys
    return d


PROFILES = {
    # C01 point reads at the newest snapshot
    "C01": tree_profile(
        6, ["READ", "OPFAIL"],
        c(Ops=CORE1, MaxSeq=5),
        [sim(50, 22, MaxSeq=14, MaxTables=5, MaxHist=20, MaxSealed=2, Ops=CORE1, WriteBias=3),
         edges(60, 2000, Ops=CORE1, MaxSeq=6, MinLen=9),
         drv(24, 160, DRIVE_W)],
        c(Ops=CORE_OPS, MaxSeq=6),
        [sim(1500, 30, Keys={1, 2, 3}, MaxSeq=24, MaxTables=6, MaxHist=30, Ops=CORE_OPS, WriteBias=4),
         edges(6, 80000, timeout=2400, Ops=CORE1, MaxSeq=6, MinLen=9),
         drv(400, 400, DRIVE_W)]),
    # C02 snapshots keep their view
    "C02": tree_profile(
        6, ["READ", "SCAN", "SNAPRES", "OPFAIL"],
        c(Ops=SNAP_OPS, MaxSeq=5, MaxSnaps=1, MaxHist=4),
        [sim(50, 24, MaxSeq=16, MaxTables=5, MaxHist=20, MaxSnaps=2, Ops=SNAP_OPS | {"reopen"}, WriteBias=3),
         edges(80, 2000, Ops=SNAP_OPS, MaxSeq=5, MaxSnaps=2, MaxHist=4, MinLen=8),
         drv(24, 160, DRIVE_SNAP_W)],
        c(Ops=SNAP_OPS, MaxSeq=6, MaxSnaps=2, MaxHist=5),
        [sim(1500, 30, Keys={1, 2, 3}, MaxSeq=24, MaxTables=6, MaxHist=30, MaxSnaps=2,
             Ops=SNAP_OPS | {"reopen"}, WriteBias=4),
         edges(8, 80000, timeout=2400, Ops=SNAP_OPS, MaxSeq=5, MaxSnaps=2, MaxHist=4, MinLen=8),
         drv(400, 400, DRIVE_SNAP_W)]),
    # C03 scans: bounds, prefixes, both ends, overlay
    "C03": tree_profile(
        4, ["SCAN", "SCANX", "OPFAIL"],
        c(Ops=SNAP_OPS, MaxSeq=5, MaxSnaps=1, MaxHist=4),
        [sim(30, 22, Keys={1, 2, 3}, MaxSeq=14, MaxTables=5, MaxHist=20, MaxSnaps=2, MaxSealed=2,
             Ops=SNAP_OPS | {"reopen"}, WriteBias=3),
         drv(24, 120, DRIVE_SNAP_W)],
        c(Ops=SNAP_OPS, MaxSeq=6, MaxSnaps=2, MaxHist=5),
        [sim(800, 30, Keys={1, 2, 3}, MaxSeq=24, MaxTables=6, MaxHist=30, MaxSnaps=2, MaxSealed=2,
             Ops=SNAP_OPS | {"reopen"}, WriteBias=4),
         drv(300, 300, DRIVE_SNAP_W)],
        scans={"prob": 0.6, "burst": 2}),
    # C04 reopen restores exactly the flushed state
    "C04": tree_profile(
        6, ["READ", "SCAN", "INVENT", "LOST", "OPFAIL"],
        c(Ops=CORE1, MaxSeq=5),
        [sim(50, 24, MaxSeq=16, MaxTables=5, MaxHist=20, Ops=CORE1 | {"ingest"}, WriteBias=3),
         edges(60, 2000, Ops=CORE1, MaxSeq=6, MinLen=9),
         drv(24, 160, dict(DRIVE_W, reopen=2))],
        c(Ops=CORE_OPS | {"ingest"}, MaxSeq=6),
        [sim(1500, 30, Keys={1, 2, 3}, MaxSeq=24, MaxTables=6, MaxHist=30, Ops=CORE_OPS | {"ingest"}, WriteBias=4),
         edges(6, 80000, timeout=2400, Ops=CORE1, MaxSeq=6, MinLen=9),
         drv(400, 400, dict(DRIVE_W, reopen=2))]),
    # C07 structure of every published version, metadata
    "C07": tree_profile(
        6, ["STRUCT", "META"],
        c(Ops=CORE1, MaxSeq=5),
        [sim(50, 22, MaxSeq=14, MaxTables=5, MaxHist=20, Ops=CORE1 | {"ingest"}, WriteBias=3),
         edges(60, 2000, Ops=CORE1, MaxSeq=6, MinLen=9),
         drv(24, 160, dict(DRIVE_W, ingest=0.5))],
        c(Ops=CORE_OPS, MaxSeq=6),
        [sim(1500, 30, Keys={1, 2, 3}, MaxSeq=24, MaxTables=6, MaxHist=30, Ops=CORE_OPS | {"ingest"}, WriteBias=4),
         edges(6, 80000, timeout=2400, Ops=CORE1, MaxSeq=6, MinLen=9),
         drv(400, 400, dict(DRIVE_W, ingest=0.5))]),
    # C13 weak deletes under the single-delete discipline
    "C13": tree_profile(
        4, ["READ", "SCAN", "OPFAIL"],
        c(Keys={1}, WeakKeys={1}, MaxSeq=7, DestLevels={0, 6}, Ops=WEAK_OPS),
        [sim(40, 22, WeakKeys={1, 2}, MaxSeq=16, MaxTables=5, MaxHist=20, Ops=WEAK_OPS, WriteBias=2),
         drv(16, 160, DRIVE_W, weak_keys=(1, 2, 3))],
        c(Keys={1}, WeakKeys={1}, MaxSeq=9, MaxSealed=2, Ops=WEAK_OPS),
        [sim(800, 30, WeakKeys={1, 2}, MaxSeq=24, MaxTables=6, MaxHist=30, MaxSealed=2, Ops=WEAK_OPS, WriteBias=2),
         drv(300, 400, DRIVE_W, weak_keys=(1, 2, 3))],
        phys_count=8, key_alphas=[0, 2]),
    # C18 sequence number high-water marks
    "C18": tree_profile(
        6, ["HI", "HIA"],
        c(Ops=CORE1, MaxSeq=5),
        [sim(50, 22, MaxSeq=14, MaxTables=5, MaxHist=20, Ops=CORE1 | {"ingest", "clear"}, WriteBias=3),
         drv(24, 160, dict(DRIVE_W, ingest=0.7, clear=0.2, droprange=0.5))],
        c(Ops=CORE_OPS | {"ingest"}, MaxSeq=6),
        [sim(1500, 30, Keys={1, 2, 3}, MaxSeq=24, MaxTables=6, MaxHist=30,
             Ops=CORE_OPS | {"ingest", "clear"}, WriteBias=4),
         drv(400, 400, dict(DRIVE_W, ingest=0.7, clear=0.2, droprange=0.5))]),
}
