"""Free-running driver: random sequences of position-free operations (the real
strategies choose what to compact; the trace specification checks what they chose).
No tree semantics here: every operation is always applicable, watermarks and snapshot
choices are symbolic and resolved by the harness from its own snapshot list."""
import random


def filter_rules(rng, nkeys, once_keys):
    """A random deterministic verdict table: RemoveWeak / Destroy only for keys written once."""
    rules = []
    for k in range(1, nkeys + 1):
        acts = ["keep", "remove", "replace", "replace"]
        if k in once_keys:
            acts += ["removeweak", "destroy", "destroy"]
        for vp in rng.choice([[2], [0, 1], [0], [1]]):
            act = rng.choice(acts)
            if act != "keep":
                # +100 keeps the size class of a value, +101 crosses the separation threshold
                rules.append({"k": k, "vp": vp, "act": act, "to": rng.choice([100, 101])})
    return rules


def behaviour(rng, nkeys, steps, weights, weak_keys=(), vals=97, leveled_params=None,
              max_snaps=2, once_keys=(), filters=False, litter=0.0):
    ops = []
    written_once = set()
    if filters:
        ops.append({"op": "_meta", "filter": filter_rules(rng, nkeys, set(once_keys))})
    snaps = 0
    lp = leveled_params or [(1, 1), (2, 1), (2, 150), (3, 400), (4, 2000)]
    kinds = list(weights)
    wts = [weights[k] for k in kinds]
    last = {}  # weak-key discipline: last write type per key
    i = 0
    while len(ops) < steps:
        k = rng.choices(kinds, wts)[0]
        w = rng.choice([0, "safe", "at", "high"])
        if k == "write":
            key = rng.randint(1, nkeys)
            if key in once_keys:
                if key in written_once:
                    continue
                written_once.add(key)
                i += 1
                ops.append({"op": "write", "items": [{"k": key, "t": "V", "v": (i % vals) + 1}]})
                continue
            if key in weak_keys:
                t = "W" if last.get(key) == "V" else "V"
            else:
                t = rng.choice(["V", "V", "V", "T"])
            last[key] = t
            i += 1
            ops.append({"op": "write", "items": [{"k": key, "t": t, "v": (i % vals) + 1 if t == "V" else 0}]})
        elif k == "batch":
            ks = sorted(rng.sample([x for x in range(1, nkeys + 1)
                                    if x not in weak_keys and x not in once_keys],
                                   min(2, nkeys - len(weak_keys) - len(once_keys))))
            items = []
            for key in ks:
                t = rng.choice(["V", "V", "T"])
                i += 1
                items.append({"k": key, "t": t, "v": (i % vals) + 1 if t == "V" else 0})
                last[key] = t
            if items:
                ops.append({"op": "write", "items": items})
        elif k == "rotate":
            ops.append({"op": "rotate"})
        elif k == "flush":
            ops.append({"op": "rotate"})
            ops.append({"op": "flush", "w": w})
        elif k == "leveled":
            l0, ts = rng.choice(lp)
            ops.append({"op": "leveled", "l0": l0, "ts": ts, "w": w})
        elif k == "major":
            ops.append({"op": "major", "split": rng.choice(["none", "all"]), "w": w})
        elif k == "reopen":
            for _ in range(snaps):
                ops.append({"op": "release", "which": "oldest"})
            snaps = 0
            ops.append({"op": "reopen", "litter": 1} if rng.random() < litter else {"op": "reopen"})
            # unflushed writes are gone: the discipline restarts from what was durable; to stay
            # inside it without knowing the tree, weak keys are not touched after a reopen
            weak_keys = ()
        elif k == "snap":
            if snaps < max_snaps:
                snaps += 1
                ops.append({"op": "snap"})
        elif k == "release":
            if snaps > 0:
                snaps -= 1
                ops.append({"op": "release", "which": rng.choice(["oldest", "newest"])})
        elif k == "clear":
            ops.append({"op": "clear"})
        elif k == "droprange":
            pts = 2 * nkeys + 1
            def bound():
                kd = rng.choice(["U", "I", "E"])
                return [kd, 0 if kd == "U" else rng.randint(1, pts)]
            ops.append({"op": "droprange", "lo": bound(), "hi": bound()})
        elif k == "ingest":
            n = rng.randint(1, min(3, nkeys))
            ks = sorted(rng.sample([x for x in range(1, nkeys + 1) if x not in weak_keys], n))
            items = []
            for key in ks:
                t = rng.choice(["V", "V", "T"])
                i += 1
                items.append({"k": key, "t": t, "v": (i % vals) + 1 if t == "V" else 0})
                last[key] = t
            ops.append({"op": "ingest", "items": items})
    return ops


def behaviours(seed, count, nkeys, steps, weights, **kw):
    rng = random.Random(seed)
    return [behaviour(rng, nkeys, steps, weights, **kw) for _ in range(count)]


def scan_op(rng, nkeys, key_len_hint=4, overlay_prob=0.15, prefix_prob=0.2):
    """A read-only scan observation with random bounds (doubled-key lattice, including
    empty and inverted pairs), consumption pattern, snapshot choice, optional prefix /
    overlay memtable."""
    pts = 2 * nkeys + 1

    def bound():
        kd = rng.choice(["U", "I", "E", "I", "E"])
        return [kd, 0 if kd == "U" else rng.randint(1, pts)]

    op = {"op": "scan", "S": rng.choice(["top", "top", "vis", "oldest", "newest"]),
          "pat": rng.choice([["F"], ["B"], ["F", "B"], ["B", "F"], ["F", "F", "B"], ["B", "B", "F"],
                             ["F", "B", "B", "F"]])}
    if rng.random() < prefix_prob:
        op["prefix"] = {"k": rng.randint(1, nkeys), "n": rng.randint(1, 210)}
    else:
        op["lo"] = bound()
        op["hi"] = bound()
    if rng.random() < overlay_prob:
        ks = sorted(rng.sample(range(1, nkeys + 1), rng.randint(1, min(2, nkeys))))
        op["overlay"] = [{"k": k, "t": rng.choice(["V", "T"]), "v": 0} for k in ks]
        for it in op["overlay"]:
            it["v"] = rng.randint(90, 96) if it["t"] == "V" else 0
    return op


def add_scans(ops, rng, nkeys, prob, burst=2, **kw):
    out = []
    for op in ops:
        out.append(op)
        if op.get("op") not in ("snap", "release") and rng.random() < prob:
            for _ in range(rng.randint(1, burst)):
                out.append(scan_op(rng, nkeys, **kw))
    return out


def fifo_behaviour(rng, nkeys):
    """Append-only history as FIFO intends (new keys in increasing order, one flush per 1-2
    keys at controlled clock times), then FIFO compactions with limits / TTLs given as
    classes relative to the measured size and the creation times, then reopen."""
    ops = []
    t = 1000
    k = 1
    times = []
    i = 0
    # monotonic order: increasing, or (one in three) decreasing keys
    down = rng.random() < 0.34
    while k <= nkeys:
        t += rng.choice([0, 1, 5, 10])
        ops.append({"op": "clock", "t": t})
        for _ in range(rng.randint(1, 2)):
            if k > nkeys:
                break
            i += 1
            ops.append({"op": "write", "items": [{"k": (nkeys + 1 - k) if down else k, "t": "V",
                                                  "v": (i % 97) + 1}]})
            k += 1
        ops.append({"op": "rotate"})
        ops.append({"op": "flush", "w": rng.choice([0, "safe"])})
        times.append(t)
        if rng.random() < 0.2 and k <= nkeys:
            _fifo(ops, rng, t, times)
    for _ in range(rng.randint(1, 3)):
        t += rng.choice([0, 3, 20])
        ops.append({"op": "clock", "t": t})
        _fifo(ops, rng, t, times)
    ops.append({"op": "reopen"})
    return ops


def _fifo(ops, rng, now, times):
    op = {"op": "fifo", "limit": rng.choice(["ge_total", "total_minus_1", "half", "one", "ge_total"]),
          "w": rng.choice([0, "safe"])}
    kind = rng.choice(["none", "none", "all", "some", "no", "zero"])
    if kind == "all":
        op["ttl"] = 1
    elif kind == "zero":
        op["ttl"] = 0       # documented as "TTL disabled"
    elif kind == "some" and len(times) >= 2:
        cut = rng.choice(times[:-1])
        op["ttl"] = max(1, now - cut)
    elif kind == "no":
        op["ttl"] = now - min(times) + 1
    ops.append(op)


def fifo_behaviours(seed, count, nkeys):
    rng = random.Random(seed)
    return [fifo_behaviour(rng, nkeys) for _ in range(count)]


_M = (1 << 64) - 1


def phys_of(i):
    """Mirror of harness/src/model.rs Phys::from_index (block size, restart interval, hash ratio)."""
    x = ((i * 0x9E3779B97F4A7C15) & _M) ^ 0xD1B54A32D192ED03

    def pick(n):
        nonlocal x
        x ^= x >> 30
        x = (x * 0xBF58476D1CE4E5B9) & _M
        x ^= x >> 27
        x = (x * 0x94D049BB133111EB) & _M
        x ^= x >> 31
        return x % n
    return {"block_size": [1, 64, 4096][pick(3)], "restart": [1, 2, 16][pick(3)],
            "hash_ratio": [0.0, 0.75, 8.0][pick(3)]}


DEEP_PHYS = [i for i in range(1, 400)
             if phys_of(i)["block_size"] == 4096 and phys_of(i)["restart"] == 1]


def deep_behaviour(rng, nkeys):
    """One data block with more restart intervals than a u8 can count (> 254): a long version
    chain of key 1 kept by a held snapshot and watermark 0, the other keys behind it; point
    reads at the newest and at the held snapshot land in the tail of the block. Runs under
    configurations with 4 KiB blocks and restart interval 1 (with and without hash index)."""
    ops = [{"op": "_meta", "phys_list": rng.sample(DEEP_PHYS, 4), "key_alpha": 0, "val_alpha": 0,
            "blob": None}]
    n = rng.choice([253, 254, 255, 256, 258, 262])
    snap_at = rng.choice([3, 10, 40])
    for i in range(n):
        ops.append({"op": "write", "items": [{"k": 1, "t": "V", "v": (i % 9) + 1}]})
        if i == snap_at:
            ops.append({"op": "snap"})
    for k in range(2, nkeys + 1):
        ops.append({"op": "write", "items": [{"k": k, "t": rng.choice(["V", "V", "T"]), "v": k}]})
    for o in ops:
        for it in o.get("items", []):
            if it["t"] == "T":
                it["v"] = 0
    ops += [{"op": "rotate"}, {"op": "flush", "w": 0}, {"op": "snap"},
            {"op": "write", "items": [{"k": 1, "t": "V", "v": 7}]},
            {"op": "major", "split": "none", "w": 0}, {"op": "release", "which": "oldest"},
            {"op": "release", "which": "oldest"}, {"op": "reopen"}]
    return ops


def deep_behaviours(seed, count, nkeys):
    rng = random.Random(seed)
    return [deep_behaviour(rng, nkeys) for _ in range(count)]


def hugeflush_behaviour(rng, nkeys):
    """One flush whose index table outgrows the flush writer's 64 MiB target, so the table
    writer rotates inside the flush: ~700 inline versions of key 1 (99 KB each, kept by
    watermark 0) followed by separated values of the other keys - the first key of the second
    table is a pointer.  Then drops / merges that use the per-table blob links."""
    n = rng.choice([690, 700, 720])
    items = [{"k": 1, "t": "V", "v": 2 * (i % 40) + 1} for i in range(n)]
    ops = [{"op": "_meta", "key_alpha": 0, "val_alpha": 3, "phys": 0, "phys_list": [0],
            "blob": {"threshold": 100000, "file_target": 1 << 26, "staleness": 0.5, "age_cutoff": 1.0,
                     "lz4": False}},
           {"op": "writes", "items": items}]
    for k in range(2, nkeys + 1):
        ops.append({"op": "write", "items": [{"k": k, "t": "V", "v": 2 * k}]})
    ops += [{"op": "rotate"}, {"op": "flush", "w": 0}]
    tail = rng.choice(["drop_hi", "drop_lo", "major"])
    if tail == "drop_hi":
        ops.append({"op": "droprange", "lo": ["I", 4], "hi": ["U", 0]})
    elif tail == "drop_lo":
        ops.append({"op": "droprange", "lo": ["U", 0], "hi": ["I", 2]})
    else:
        ops.append({"op": "major", "split": "none", "w": "safe"})
    ops.append({"op": "reopen"})
    return ops


def hugeflush_behaviours(seed, count, nkeys):
    rng = random.Random(seed)
    return [hugeflush_behaviour(rng, nkeys) for _ in range(count)]

