"""File-system recording of a harness run with strace (complete: includes the raw-syscall
rename of `current`), conversion to an operation list for spec/LsmDisk.tla, and
reconstruction of every file's bytes from the recorded writes."""
import os
import re
import subprocess

SYSCALLS = "openat,write,pwrite64,fsync,fdatasync,rename,renameat,renameat2,unlink,unlinkat,mkdir,ftruncate"


def unhex(s):
    return bytes(int(x, 16) for x in re.findall(r"\\x([0-9a-f]{2})", s))


LINE = re.compile(r"^(\d+)\s+(\w+)\((.*)\)\s+=\s+(-?\d+)(.*)$")
FD = re.compile(r"^(\d+)<((?:\\x[0-9a-f]{2})*)>")
STR = re.compile(r'"((?:\\x[0-9a-f]{2})*)"(\.\.\.)?')


def record(cmd, straceout, env=None):
    full = ["strace", "-f", "-y", "-xx", "-s", "1000000", "-e", "trace=" + SYSCALLS, "-o", straceout] + cmd
    r = subprocess.run(full, stdout=subprocess.PIPE, stderr=subprocess.PIPE, text=True, env=env)
    return r


def parse(straceout, root, marker_path):
    """-> (ops, contents). ops: list of dicts with paths relative to root; contents: obj id ->
    bytes. Every created file is an object; paths map to objects through the directory ops."""
    ops = []
    step = 0
    root = root.rstrip("/")
    for line in open(straceout, errors="replace"):
        m = LINE.match(line.rstrip("\n"))
        if not m:
            continue
        _, call, args, ret, _ = m.groups()
        ret = int(ret)
        if ret < 0:
            continue

        def rel(p):
            p = p.decode(errors="replace")
            if p == root:
                return "."
            if p.startswith(root + "/"):
                return p[len(root) + 1:]
            return None

        if call in ("write", "pwrite64"):
            fm = FD.match(args)
            if not fm:
                continue
            path = unhex(fm.group(2))
            if path.decode(errors="replace") == marker_path:
                # one trace line per step; a long line may take several write() calls
                sm = STR.search(args[fm.end():])
                if sm and unhex(sm.group(1)) == b"\n":
                    step += 1
                    ops.append({"op": "step", "n": step})
                continue
            r = rel(path)
            if r is None:
                continue
            sm = STR.search(args[fm.end():])
            data = unhex(sm.group(1)) if sm else b""
            if len(data) != ret:
                data = data[:ret]
            ops.append({"op": "write", "path": r, "data": data})
        elif call == "openat":
            strs = STR.findall(args)
            if not strs:
                continue
            path = unhex(strs[0][0])
            if not path.startswith(b"/"):
                dm = re.search(r"AT_FDCWD<((?:\\x[0-9a-f]{2})*)>", args)
                base = unhex(dm.group(1)) if dm else b""
                path = os.path.normpath(os.path.join(base, path))
            r = rel(path)
            if r is None:
                continue
            if "O_CREAT" in args:
                ops.append({"op": "create", "path": r, "trunc": "O_TRUNC" in args, "excl": "O_EXCL" in args})
            elif "O_TRUNC" in args:
                ops.append({"op": "create", "path": r, "trunc": True, "excl": False})
        elif call in ("fsync", "fdatasync"):
            fm = FD.match(args)
            if fm:
                r = rel(unhex(fm.group(2)))
                if r is not None:
                    ops.append({"op": "fsync", "path": r})
        elif call in ("rename", "renameat", "renameat2"):
            strs = [unhex(x[0]) for x in STR.findall(args)]
            if len(strs) >= 2:
                a, b = rel(strs[0]), rel(strs[1])
                if a is not None and b is not None:
                    ops.append({"op": "rename", "from": a, "to": b})
        elif call in ("unlink", "unlinkat"):
            strs = [unhex(x[0]) for x in STR.findall(args)]
            if strs:
                r = rel(strs[-1] if call == "unlinkat" else strs[0])
                if r is not None:
                    ops.append({"op": "unlink", "path": r})
        elif call == "mkdir":
            strs = [unhex(x[0]) for x in STR.findall(args)]
            if strs:
                r = rel(strs[0])
                if r is not None:
                    ops.append({"op": "mkdir", "path": r})
    return ops


DIRS = (".", "tables", "blobs")


def to_model(ops):
    """ops (parse) -> (records for spec/LsmDisk.tla, contents: obj id -> bytes).
    Operations after the last step marker (scratch clean-up) are dropped."""
    last = max((j for j, o in enumerate(ops) if o["op"] == "step"), default=-1)
    ops = ops[:last + 1]
    recs = []
    contents = {}
    names = {}  # path -> obj
    nxt = 1

    def split(path):
        if "/" in path:
            d, nm = path.rsplit("/", 1)
        else:
            d, nm = ".", path
        return d, nm

    for o in ops:
        k = o["op"]
        if k == "step":
            recs.append({"op": "step", "d": ".", "nm": "", "n": o["n"], "tn": "", "obj": 0})
            continue
        if k == "mkdir":
            if o["path"] == ".":
                continue
            d, nm = split(o["path"])
            recs.append({"op": "mkdir", "d": d, "nm": nm, "n": 0, "tn": "", "obj": 0})
            continue
        if k == "fsync" and o["path"] in DIRS:
            recs.append({"op": "fsyncdir", "d": o["path"], "nm": "", "n": 0, "tn": "", "obj": 0})
            continue
        if k == "rename":
            d, nm = split(o["from"])
            td, tn = split(o["to"])
            if d != td:
                raise ValueError("cross-directory rename not modelled: %r" % o)
            if o["from"] in names:
                names[o["to"]] = names.pop(o["from"])
            recs.append({"op": "rename", "d": d, "nm": nm, "n": 0, "tn": tn, "obj": 0})
            continue
        d, nm = split(o["path"])
        if d not in DIRS:
            raise ValueError("unexpected directory in %r" % o)
        if k == "create":
            if o["path"] in names and not o["trunc"]:
                continue  # plain re-open of an existing file
            obj = nxt
            nxt += 1
            names[o["path"]] = obj
            contents[obj] = b""
            recs.append({"op": "create", "d": d, "nm": nm, "n": 0, "tn": "", "obj": obj})
        elif k == "write":
            obj = names.get(o["path"])
            if obj is None:
                raise ValueError("write to unknown file %r" % o["path"])
            contents[obj] += o["data"]
            recs.append({"op": "write", "d": d, "nm": nm, "n": len(o["data"]), "tn": "", "obj": obj})
        elif k == "fsync":
            if o["path"] in names:
                recs.append({"op": "fsync", "d": d, "nm": nm, "n": 0, "tn": "", "obj": names[o["path"]]})
        elif k == "unlink":
            if o["path"] in names:
                names.pop(o["path"])
                recs.append({"op": "unlink", "d": d, "nm": nm, "n": 0, "tn": "", "obj": 0})
    return recs, contents
