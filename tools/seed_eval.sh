#!/bin/bash
# seed_eval.sh <seeded-dir> <check ids...> : applies the seeded patch to the repository, runs the
# checks (quick tier unless TIER is set), restores the repository.
# Prints "<seed> <check> rc=<rc> ...".  VERIF_REPO / VERIF_DIR select a snapshot (vp run).
REPO=${VERIF_REPO:-/repo}; V=${VERIF_DIR:-/verif}
S=$1; shift
cd $REPO || exit 2
if ! git diff --quiet; then echo "$REPO is dirty"; exit 2; fi
git apply "$S/patch.diff" || { echo "$S apply failed"; exit 2; }
for c in "$@"; do
  (cd $V && timeout 2400 bin/check $c --tier ${TIER:-quick} > /tmp/seed_eval.$$.out 2>&1); rc=$?
  echo "$(basename $S) $c rc=$rc $(grep -c '^VIOLATION' /tmp/seed_eval.$$.out) violations; $(grep -E '^\[C[0-9]+\] [A-Z]+ at step' /tmp/seed_eval.$$.out | head -1 | cut -c1-160)"
  grep -E "TOOL-ERROR" /tmp/seed_eval.$$.out | head -2
  if [ $rc -ge 2 ]; then grep -B12 "TOOL-ERROR: unexpected" /tmp/seed_eval.$$.out | cut -c1-300 | head -16; fi
done
rm -f /tmp/seed_eval.$$.out
git -C $REPO checkout -- .
find $V/replays -type f -delete 2>/dev/null
