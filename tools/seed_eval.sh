#!/bin/bash
# seed_eval.sh <seeded-dir> <check ids...> : applies the seeded patch to /repo, runs the checks
# (quick tier), restores /repo. Prints "<seed> <check> rc=<rc>".
S=$1; shift
cd /repo || exit 2
if ! git diff --quiet; then echo "/repo is dirty"; exit 2; fi
git apply "$S/patch.diff" || { echo "$S apply failed"; exit 2; }
for c in "$@"; do
  (cd /verif && timeout 1500 bin/check $c --tier ${TIER:-quick} > /tmp/seed_eval.$$.out 2>&1); rc=$?
  echo "$(basename $S) $c rc=$rc $(grep -c '^VIOLATION' /tmp/seed_eval.$$.out) violations; $(grep -E '^\[C[0-9]+\] (READ|SCAN|STRUCT|META|HI|HIA|INVENT|LOST|SNAPRES|OPFAIL)' /tmp/seed_eval.$$.out | head -1 | cut -c1-150)"
  grep -E "TOOL-ERROR" /tmp/seed_eval.$$.out | head -2
done
rm -f /tmp/seed_eval.$$.out
git -C /repo checkout -- . 
rm -rf /verif/replays/*
