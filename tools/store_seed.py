#!/usr/bin/env python3
"""store_seed.py <PROP> <k> : copies a confirmed seeded change from its scratch worktree
(/tmp/seed/<PROP>/seed_out/<k>) into /verif/seeded/<PROP>-<k> and writes meta.json.
The RESULT line of tools/confirm_seed.sh is read from /tmp/seed/confirm.<PROP>.log."""
import json, os, re, shutil, subprocess, sys
prop, k = sys.argv[1], sys.argv[2]
src = f"/tmp/seed/{prop}/seed_out/{k}"
dst = f"/verif/seeded/{prop}-{k}"
res = None
for line in open(f"/tmp/seed/confirm.{prop}.log"):
    m = re.match(rf"RESULT \S+ {k} demo_clean_rc=(\d+) demo_mut_rc=(\d+) suite_rc=(\d+) failed_tests=(\d+)", line)
    if m:
        res = [int(x) for x in m.groups()]
if not res or res[0] != 0 or res[1] == 0 or res[2] != 0 or res[3] != 0:
    sys.exit(f"not confirmed: {res}")
os.makedirs(dst, exist_ok=True)
for f in ("patch.diff", "demo.rs", "notes.md"):
    shutil.copy(os.path.join(src, f), os.path.join(dst, f))
what = open(os.path.join(src, "notes.md")).readline().strip()
chk = subprocess.run(["git", "-C", "/repo", "apply", "--check", os.path.join(dst, "patch.diff")],
                     capture_output=True, text=True)
meta = {
    "property": prop,
    "origin": "independent sub-agent given only the property text and a scratch worktree of the pinned commit",
    "what": what,
    "needs": "see notes.md",
    "confirmed": {
        "by": "tools/confirm_seed.sh in the scratch worktree",
        "demo_passes_without_patch": True,
        "demo_fails_with_patch": True,
        "existing_test_suite_passes_with_patch": True,
        "commands": [
            f"cargo test --offline --test <demo> (clean: rc {res[0]}; patched: rc {res[1]})",
            f"cargo test --offline --no-fail-fast (patched: rc {res[2]}, {res[3]} failed)",
        ],
    },
    "applies_to_current_repo_head": chk.returncode == 0,
    "detected_by": {},
}
json.dump(meta, open(os.path.join(dst, "meta.json"), "w"), indent=1)
print(dst, "applies:", chk.returncode == 0, chk.stderr.strip()[:200])
