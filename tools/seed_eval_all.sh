#!/bin/bash
# Runs every seeded mutation against the checks of its property (plus neighbours).
# Inside `vp run --with-repo` it works on the snapshots: VP_RUN_REPO is the repo copy, the
# current directory the /verif copy (the harness' path dependency is redirected).
V=$(pwd); REPO=${VP_RUN_REPO:-/repo}
if [ "$REPO" != "/repo" ]; then sed -i "s#path = \"/repo\"#path = \"$REPO\"#" $V/harness/Cargo.toml; fi
export VERIF_REPO=$REPO VERIF_DIR=$V
declare -A EXTRA=( [C01]="C01 C07" [C02]="C02 C08" [C03]="C03 C12" [C04]="C04 C08" [C07]="C07 C04 C18" [C08]="C08 C09" [C09]="C09 C17" [C13]="C13 C01" [C14]="C14 C03 C04" [C15]="C15 C06 C08" [C05]="C05" [C06]="C06 C02" [C16]="C16" [C17]="C17" [C20]="C20 C16" [C10]="C10" [C11]="C11" [C12]="C12" [C18]="C18" [C19]="C19" )
for d in $V/seeded/*/; do
  n=$(basename $d); p=${n%-*}
  if [ -n "$ONLY" ] && [[ ! " $ONLY " =~ " $n " ]]; then continue; fi
  $V/tools/seed_eval.sh $d ${EXTRA[$p]:-$p}
done
