#!/bin/bash
# confirm_seed.sh <worktree> <k> : confirms a seeded mutation in its scratch worktree:
#  demo passes without patch, fails with patch; the existing test-suite passes with the patch.
# prints one line: RESULT <worktree> <k> demo_clean=<0|1> demo_mut=<0|1> suite=<ok|FAIL>
W=$1; K=$2
cd "$W" || exit 2
export CARGO_TARGET_DIR=$W/target CARGO_NET_OFFLINE=true
git checkout -q -- src; rm -f tests/seed_demo_*.rs
D=seed_out/$K
N=seed_demo_$K
cp $D/demo.rs tests/$N.rs
cargo test --offline -j 6 --test $N >/tmp/seed/log.$$.clean 2>&1; C=$?
git apply $D/patch.diff || { echo "RESULT $W $K apply-failed"; rm -f tests/$N.rs; exit 1; }
cargo test --offline -j 6 --test $N >/tmp/seed/log.$$.mut 2>&1; M=$?
rm -f tests/$N.rs
cargo test --offline -j 6 --no-fail-fast -- --test-threads 6 >/tmp/seed/log.$$.suite 2>&1; S=$?
FAILED=$(grep -c "^test .* FAILED" /tmp/seed/log.$$.suite)
git checkout -q -- src
echo "RESULT $W $K demo_clean_rc=$C demo_mut_rc=$M suite_rc=$S failed_tests=$FAILED"
grep "^test .* FAILED" /tmp/seed/log.$$.suite | head -5
rm -f /tmp/seed/log.$$.*
