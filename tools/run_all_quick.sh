#!/bin/bash
# Runs every quick check once (sequentially) and prints "<id> rc=<rc> <seconds>s".
cd "$(dirname "$0")/.." || exit 2
for c in C01 C02 C03 C04 C05 C06 C07 C08 C09 C10 C11 C12 C13 C14 C15 C16 C17 C18 C19 C20; do
  t0=$(date +%s)
  bin/check $c --tier quick > /dev/shm/quick-$c.log 2>&1; rc=$?
  echo "$c rc=$rc $(( $(date +%s) - t0 ))s $(grep -c '^VIOLATION' /dev/shm/quick-$c.log) violations $(grep -c '^KNOWN-FINDING' /dev/shm/quick-$c.log) known"
done
