#!/usr/bin/env python3
"""seed_results.py <log>... : reads the output of tools/seed_eval*.sh ("<seed> <check> rc=<rc> <n>
violations; <first violation>"), records per seed which checks raised a violation in
seeded/<seed>/meta.json (detected_by) and writes seeded/RESULTS.md. Later logs override
earlier ones for the same (seed, check)."""
import json, os, re, sys
V = os.path.dirname(os.path.dirname(os.path.abspath(__file__)))
res = {}
for path in sys.argv[1:]:
    for line in open(path, errors="replace"):
        m = re.match(r"(C\d\d-\d+) (C\d\d) rc=(\d+) (\d+) violations; ?(.*)", line)
        if m:
            seed, chk, rc, n, det = m.group(1), m.group(2), int(m.group(3)), int(m.group(4)), m.group(5)
            kind = re.search(r"\] ([A-Za-z\- ]+?) (?:at step|schedule|round|case)", det)
            res.setdefault(seed, {})[chk] = {"rc": rc, "violations": n,
                                             "kind": kind.group(1) if kind else ("" if rc != 1 else "?")}
rows = []
for seed in sorted(os.listdir(os.path.join(V, "seeded"))):
    mp = os.path.join(V, "seeded", seed, "meta.json")
    if not os.path.isfile(mp):
        continue
    meta = json.load(open(mp))
    r = res.get(seed, {})
    if r:
        meta["detected_by"] = {c: (x["kind"] or "violation") for c, x in r.items() if x["rc"] == 1}
        meta["checks_run"] = {c: ("violation" if x["rc"] == 1 else "quiet" if x["rc"] == 0 else f"tool error rc={x['rc']}")
                              for c, x in r.items()}
        json.dump(meta, open(mp, "w"), indent=1)
    det = meta.get("detected_by") or {}
    run = meta.get("checks_run") or {}
    own = meta["property"]
    rows.append((seed, own, meta.get("what", "").lstrip("# ").strip()[:110],
                 ", ".join(f"{c} ({k})" for c, k in sorted(det.items())) or "—",
                 ", ".join(c for c, v in sorted(run.items()) if v == "quiet") or "—",
                 "yes" if own in det else ("other check" if det else ("NO" if run else "not run"))))
with open(os.path.join(V, "seeded", "RESULTS.md"), "w") as f:
    f.write("# Seeded changes: which checks report them (quick tier)\n\n")
    f.write("Each change was produced by an independent sub-agent that saw only the property text, "
            "compiles, passes the repository's test suite and comes with a demonstration test "
            "(`seeded/<id>/demo.rs`). `tools/seed_eval.sh` applies the patch to the repository, runs the "
            "listed checks and restores the repository.\n\n")
    f.write("| seed | property | change | reported by (kind) | quiet checks | own property's check |\n|---|---|---|---|---|---|\n")
    for r in rows:
        f.write("| " + " | ".join(r) + " |\n")
    tot = len(rows)
    own = sum(1 for r in rows if r[5] == "yes")
    anyc = sum(1 for r in rows if r[5] in ("yes", "other check"))
    ran = sum(1 for r in rows if r[5] != "not run")
    f.write(f"\n{ran} of {tot} seeds evaluated; reported by the check of their own property: {own}; "
            f"reported by some check: {anyc}.\n")
print(open(os.path.join(V, "seeded", "RESULTS.md")).read()[-600:])
