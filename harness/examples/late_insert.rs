//! A write whose seqno was allocated before a flush installed its version, and which is
//! inserted after the next rotation, is invisible at a snapshot published after it.
use lsm_tree::{AbstractTree, Config, SequenceNumberCounter};
fn main() {
    let dir = std::path::PathBuf::from("/dev/shm/late_insert_demo");
    let _ = std::fs::remove_dir_all(&dir);
    let seq = SequenceNumberCounter::default();
    let vis = SequenceNumberCounter::default();
    let tree = Config::new(&dir, seq.clone(), vis.clone()).open().expect("open");
    let s = seq.next();
    tree.insert("a", "0", s);
    vis.fetch_max(s + 1);
    tree.rotate_memtable();
    let s = seq.next();
    tree.insert("b", "1", s);
    vis.fetch_max(s + 1);
    let s_late = seq.next(); // the writer has its seqno, the insert is delayed
    let lock = tree.get_flush_lock();
    tree.flush(&lock, 0).expect("flush");
    drop(lock);
    tree.rotate_memtable();
    tree.insert("c", "2", s_late);
    vis.fetch_max(s_late + 1);
    let snap = s_late + 1; // published by the writer after its write returned
    println!("snapshot {snap}: get(c) = {:?}", tree.get("c", snap).expect("get"));
    println!("snapshot MAX: get(c) = {:?}", tree.get("c", u64::MAX).expect("get"));
    println!("snapshot {snap}: len = {:?}", tree.len(snap, None).expect("len"));
    let _ = std::fs::remove_dir_all(&dir);
}
