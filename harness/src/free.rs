//! C06 (free-running part): one writer, readers, a flusher, compactors (real Leveled
//! strategy) and an occasional major compaction run unscheduled for a bounded number of
//! operations; the yield points of the verif hooks insert seeded random pauses to perturb
//! the schedule. Every acknowledged write and every read (with its snapshot) is logged;
//! TLC (spec/TraceFree.tla) checks each read against the ordered-map oracle over the write
//! log - which depends only on the snapshot once it is published.

use crate::exec::Session;
use crate::model::{Concretise, Phys};
use lsm_tree::{AbstractTree, Guard, SeqNo};
use serde_json::{json, Value};
use std::io::{BufWriter, Write};
use std::sync::atomic::{AtomicBool, AtomicU64, Ordering};
use std::sync::{Arc, Mutex};

fn rnd(x: &mut u64) -> u64 {
    *x ^= *x << 13;
    *x ^= *x >> 7;
    *x ^= *x << 17;
    *x
}

pub fn run(args: &[String]) -> i32 {
    let out = crate::arg(args, "--out").expect("--out");
    let nkeys: i64 = crate::arg(args, "--nkeys").map_or(6, |s| s.parse().expect("nkeys"));
    let rounds: u64 = crate::arg(args, "--rounds").map_or(4, |s| s.parse().expect("rounds"));
    let writes: u64 = crate::arg(args, "--writes").map_or(300, |s| s.parse().expect("writes"));
    let seed: u64 = crate::arg(args, "--seed").map_or(1, |s| s.parse().expect("seed"));
    let scratch = crate::arg(args, "--scratch").unwrap_or_else(|| format!("/dev/shm/verif-{}", std::process::id()));
    crate::install_hooks();
    static PAUSE: AtomicU64 = AtomicU64::new(88172645463325252);
    lsm_tree::verif::set_yield_handler(Some(Arc::new(|_p| {
        let mut x = PAUSE.fetch_add(0x9E37_79B9_7F4A_7C15, Ordering::Relaxed) | 1;
        let r = rnd(&mut x) % 8;
        if r < 3 {
            std::thread::yield_now();
        } else if r == 3 {
            std::thread::sleep(std::time::Duration::from_micros(rnd(&mut x) % 400));
        }
    })));
    let mut wr = BufWriter::new(std::fs::File::create(&out).expect("create output"));
    for round in 0..rounds {
        PAUSE.store(seed.wrapping_mul(7919).wrapping_add(round) | 1, Ordering::Relaxed);
        let phys = Phys::from_index(((seed + round) % 12) as u32);
        let conc = Concretise { key_alpha: 0, val_alpha: 0 };
        let dir = std::path::PathBuf::from(&scratch).join(format!("f{round}"));
        let mut sess = match Session::new(dir.clone(), conc.clone(), phys, None, nkeys, vec![], None) {
            Ok(s) => s,
            Err(e) => {
                eprintln!("cannot create tree: {e}");
                return 2;
            }
        };
        let tree = sess.tree.clone().expect("tree");
        let seq = sess.seq.clone();
        let vis = sess.vis.clone();
        let log: Arc<Mutex<Vec<Value>>> = Arc::new(Mutex::new(vec![json!({"ev": "reset", "round": round})]));
        // what the *writer* has published: readers only use snapshots taken from here. (The
        // tree's visible_seqno is also advanced by version installs and may run ahead of a
        // write whose seqno is allocated but not inserted yet.)
        let published = Arc::new(AtomicU64::new(0));
        let stop = Arc::new(AtomicBool::new(false));
        // snapshots currently in use by readers (watermarks stay strictly below them)
        let live: Arc<Mutex<Vec<u64>>> = Arc::new(Mutex::new(vec![]));
        let safe_w = {
            let live = live.clone();
            let vis = published.clone();
            move |x: &mut u64| -> u64 {
                if rnd(x) % 2 == 0 {
                    return 0;
                }
                let l = live.lock().expect("lock");
                // a reader registers its snapshot before using it; stay below every live one
                // and below the visible seqno at this instant
                let m = l.iter().min().copied().unwrap_or(u64::MAX).min(vis.load(Ordering::Acquire));
                m.saturating_sub(1)
            }
        };
        // Usage protocol of this driver (what fjall's journal lock provides): a writer does not
        // hold an allocated seqno across a memtable rotation.  Without it the recorded known
        // finding C06-late-insert (a write inserted after a rotation is invisible at older
        // retained versions) would fire here at the mercy of the OS scheduler; the forced
        // schedules decide that case deterministically.
        let rot = Arc::new(std::sync::RwLock::new(()));
        let mut hs = vec![];
        {
            // writer
            let rot = rot.clone();
            let (tree, seq, vis, log, conc) = (tree.clone(), seq.clone(), vis.clone(), log.clone(), conc.clone());
            let published = published.clone();
            let mut x = seed ^ 0xA5A5 ^ round;
            hs.push(std::thread::spawn(move || {
                for i in 0..writes {
                    let k = (rnd(&mut x) % nkeys as u64) as i64 + 1;
                    let t = if rnd(&mut x) % 4 == 0 { "T" } else { "V" };
                    let v = (i % 97) as i64 + 1;
                    let g = rot.read().expect("lock");
                    let s = seq.next();
                    if t == "V" {
                        tree.insert(conc.key(k), conc.val(v), s);
                    } else {
                        tree.remove(conc.key(k), s);
                    }
                    drop(g);
                    // acknowledged (logged) before it is published
                    log.lock().expect("lock").push(json!({"ev": "w", "k": k, "s": s, "t": t, "v": if t == "V" { v } else { 0 }}));
                    vis.fetch_max(s + 1);
                    published.store(s + 1, Ordering::Release);
                    if rnd(&mut x) % 5 == 0 {
                        std::thread::yield_now();
                    }
                    // a writer that finds the memtable full seals it itself (what fjall does),
                    // concurrently with whatever the flusher is doing
                    if rnd(&mut x) % 9 == 0 {
                        let _g = rot.write().expect("lock");
                        tree.rotate_memtable();
                    }
                }
            }));
        }
        for rid in 0..2u64 {
            let (tree, vis, log, conc, stop, live) = (tree.clone(), published.clone(), log.clone(), conc.clone(), stop.clone(), live.clone());
            let mut x = seed ^ 0x5151 ^ (rid << 8) ^ round;
            hs.push(std::thread::spawn(move || {
                while !stop.load(Ordering::Relaxed) {
                    // register a lower bound first, then take the snapshot
                    let s = {
                        let mut l = live.lock().expect("lock");
                        let s = vis.load(Ordering::Acquire);
                        l.push(s);
                        s
                    };
                    let r = std::panic::catch_unwind(std::panic::AssertUnwindSafe(|| -> Result<Value, String> {
                        if rnd(&mut x) % 4 == 0 {
                            let mut res = vec![];
                            for g in tree.iter(s, None) {
                                let (k, v) = g.into_inner().map_err(|e| format!("{e:?}"))?;
                                res.push(json!([conc.key_back(&k, nkeys), conc.val_back(&v)]));
                            }
                            Ok(json!({"ev": "scan", "S": s, "r": res}))
                        } else {
                            let k = (rnd(&mut x) % nkeys as u64) as i64 + 1;
                            let g = tree.get(conc.key(k), s).map_err(|e| format!("{e:?}"))?;
                            Ok(json!({"ev": "r", "S": s, "k": k, "v": g.map_or(0, |b| conc.val_back(&b))}))
                        }
                    }));
                    let ev = match r {
                        Ok(Ok(v)) => v,
                        Ok(Err(e)) => json!({"ev": "err", "who": "reader", "what": e}),
                        Err(_) => json!({"ev": "err", "who": "reader", "what": "panic"}),
                    };
                    log.lock().expect("lock").push(ev);
                    let mut l = live.lock().expect("lock");
                    if let Some(p) = l.iter().position(|y| *y == s) {
                        l.remove(p);
                    }
                }
            }));
        }
        {
            // flusher
            let (tree, log, stop) = (tree.clone(), log.clone(), stop.clone());
            let rot = rot.clone();
            let safe_w = safe_w.clone();
            let mut x = seed ^ 0x7777 ^ round;
            hs.push(std::thread::spawn(move || {
                while !stop.load(Ordering::Relaxed) {
                    let r = std::panic::catch_unwind(std::panic::AssertUnwindSafe(|| {
                        let lock = tree.get_flush_lock();
                        {
                            let _g = rot.write().expect("lock");
                            tree.rotate_memtable();
                        }
                        tree.flush(&lock, safe_w(&mut x)).map(|_| ())
                    }));
                    match r {
                        Ok(Ok(())) => {}
                        Ok(Err(e)) => log.lock().expect("lock").push(json!({"ev": "err", "who": "flush", "what": format!("{e:?}")})),
                        Err(_) => log.lock().expect("lock").push(json!({"ev": "err", "who": "flush", "what": "panic"})),
                    }
                    std::thread::sleep(std::time::Duration::from_micros(200 + rnd(&mut x) % 800));
                }
            }));
        }
        for cid in 0..2u64 {
            let (tree, log, stop) = (tree.clone(), log.clone(), stop.clone());
            let safe_w = safe_w.clone();
            let mut x = seed ^ 0x3333 ^ (cid << 4) ^ round;
            hs.push(std::thread::spawn(move || {
                while !stop.load(Ordering::Relaxed) {
                    let r = std::panic::catch_unwind(std::panic::AssertUnwindSafe(|| {
                        if cid == 1 && rnd(&mut x) % 12 == 0 {
                            tree.major_compact(if rnd(&mut x) % 2 == 0 { 1 } else { u64::MAX }, safe_w(&mut x))
                        } else {
                            let l0 = [1u8, 2, 4][(rnd(&mut x) % 3) as usize];
                            let ts = [1u64, 150, 2000][(rnd(&mut x) % 3) as usize];
                            tree.compact(
                                Arc::new(lsm_tree::compaction::Leveled::default().with_l0_threshold(l0).with_table_target_size(ts)),
                                safe_w(&mut x),
                            )
                        }
                    }));
                    match r {
                        Ok(Ok(())) => {}
                        Ok(Err(e)) => log.lock().expect("lock").push(json!({"ev": "err", "who": "compact", "what": format!("{e:?}")})),
                        Err(_) => log.lock().expect("lock").push(json!({"ev": "err", "who": "compact", "what": "panic"})),
                    }
                    std::thread::sleep(std::time::Duration::from_micros(100 + rnd(&mut x) % 600));
                }
            }));
        }
        // the writer is the first handle: when it is done, stop the others
        let writer = hs.remove(0);
        let _ = writer.join();
        stop.store(true, Ordering::Relaxed);
        for h in hs {
            let _ = h.join();
        }
        drop(tree);
        let fin = |s: &Session, ev: &str| -> Value {
            let o = s.observe();
            let top = o["get"].as_array().and_then(|a| a.iter().find(|g| g["S"] == json!(crate::exec::TOP))).cloned().unwrap_or(json!({}));
            let sc = o["scan"].as_array().and_then(|a| a.iter().find(|g| g["S"] == json!(crate::exec::TOP))).cloned().unwrap_or(json!({}));
            json!({"ev": ev, "gets": top["v"], "scan": sc["r"], "hidden": s.project()["hidden"]})
        };
        let mut events = std::mem::take(&mut *log.lock().expect("lock"));
        events.push(fin(&sess, "final"));
        for op in [json!({"op": "rotate"}), json!({"op": "flush", "w": 0}), json!({"op": "reopen"})] {
            let (ret, _) = sess.exec(&op);
            if ret != "ok" {
                events.push(json!({"ev": "err", "who": "final", "what": ret}));
            }
        }
        events.push(fin(&sess, "reopen"));
        for e in events {
            writeln!(wr, "{e}").expect("write");
        }
        drop(sess);
        let _ = std::fs::remove_dir_all(&dir);
    }
    wr.flush().expect("flush");
    let _ = std::fs::remove_dir_all(&scratch);
    let _ = SeqNo::MAX;
    println!("{}", json!({"rounds": rounds}));
    0
}
