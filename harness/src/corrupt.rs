//! C10: byte-level fault enumeration. Builds a tree from a behaviour, closes it, records
//! the answers of an undamaged reopen, then damages one byte (or truncates) of one file at
//! a time, reopens with an empty cache and repeats the read set. Outcome per trial:
//! same | err | panic | diff. The judgement (diff is never allowed) is made by TLC
//! (spec/TraceCorrupt.tla) on the logged outcome records.

use crate::exec::{Session, TOP};
use crate::model::{BlobCfg, Concretise, Phys};
use lsm_tree::{AbstractTree, Guard, SeqNo};
use serde_json::{json, Value};
use std::collections::BTreeMap;
use std::io::{BufRead, BufReader, BufWriter, Write};
use std::panic::{catch_unwind, AssertUnwindSafe};
use std::path::{Path, PathBuf};

fn list_files(root: &Path) -> BTreeMap<String, Vec<u8>> {
    let mut out = BTreeMap::new();
    let mut stack = vec![root.to_path_buf()];
    while let Some(d) = stack.pop() {
        if let Ok(rd) = std::fs::read_dir(&d) {
            for e in rd.flatten() {
                let p = e.path();
                if p.is_dir() {
                    stack.push(p);
                } else if let Ok(bytes) = std::fs::read(&p) {
                    let rel = p.strip_prefix(root).unwrap_or(&p).to_string_lossy().to_string();
                    out.insert(rel, bytes);
                }
            }
        }
    }
    out
}

fn restore(root: &Path, snap: &BTreeMap<String, Vec<u8>>) {
    let now = list_files(root);
    for (rel, _) in &now {
        if !snap.contains_key(rel) {
            let _ = std::fs::remove_file(root.join(rel));
        }
    }
    for (rel, bytes) in snap {
        if now.get(rel) != Some(bytes) {
            if let Some(parent) = root.join(rel).parent() {
                let _ = std::fs::create_dir_all(parent);
            }
            let _ = std::fs::write(root.join(rel), bytes);
        }
    }
}

/// the read set: get of every key at Top and at `vis`, forward and reverse scan at Top
fn read_set(sess: &Session, vis: u64) -> Result<Value, String> {
    let t = sess.tree.as_ref().ok_or("no tree")?;
    let mut gets = vec![];
    for s in [TOP, vis] {
        let sq = if s >= TOP { SeqNo::MAX } else { s };
        for k in 1..=sess.nkeys {
            let key = sess.conc.key(k);
            let g = t.get(&key, sq).map_err(|e| format!("{e:?}"))?;
            gets.push(g.map(|b| b.to_vec()));
        }
    }
    let mut fwd = vec![];
    for g in t.iter(SeqNo::MAX, None) {
        let (k, v) = g.into_inner().map_err(|e| format!("{e:?}"))?;
        fwd.push((k.to_vec(), v.to_vec()));
    }
    let mut rev = vec![];
    for g in t.iter(SeqNo::MAX, None).rev() {
        let (k, v) = g.into_inner().map_err(|e| format!("{e:?}"))?;
        rev.push((k.to_vec(), v.to_vec()));
    }
    let n = t.len(SeqNo::MAX, None).map_err(|e| format!("{e:?}"))?;
    Ok(json!({"gets": gets, "fwd": fwd, "rev": rev, "len": n}))
}

/// Runs the trial in a forked child: an out-of-memory abort or a crash of the code under
/// test must not take the enumeration down. Outcome "abort" = the child died on a signal.
fn trial(sess: &mut Session, vis: u64, baseline: &Value) -> (&'static str, String) {
    let mut fds = [0i32; 2];
    // SAFETY: plain pipe/fork/waitpid; the harness is single threaded here
    unsafe {
        if libc::pipe(fds.as_mut_ptr()) != 0 {
            return trial_inner(sess, vis, baseline);
        }
        let pid = libc::fork();
        if pid < 0 {
            libc::close(fds[0]);
            libc::close(fds[1]);
            return trial_inner(sess, vis, baseline);
        }
        if pid == 0 {
            libc::close(fds[0]);
            // keep a runaway allocation from exhausting the machine
            let lim = libc::rlimit { rlim_cur: 4 << 30, rlim_max: 4 << 30 };
            libc::setrlimit(libc::RLIMIT_AS, &lim);
            // ... and a runaway loop from stalling the enumeration: a trial takes milliseconds
            // of CPU; 10 s of CPU time (not wall time, so machine load does not matter) means
            // the damaged bytes sent the reader spinning - neither an answer nor an error
            let cpu = libc::rlimit { rlim_cur: 10, rlim_max: 15 };
            libc::setrlimit(libc::RLIMIT_CPU, &cpu);
            let (o, d) = trial_inner(sess, vis, baseline);
            let msg = format!("{o}\n{d}");
            libc::write(fds[1], msg.as_ptr().cast(), msg.len());
            libc::_exit(0);
        }
        libc::close(fds[1]);
        let mut buf = vec![0u8; 1024];
        let mut got = vec![];
        loop {
            let n = libc::read(fds[0], buf.as_mut_ptr().cast(), buf.len());
            if n <= 0 {
                break;
            }
            got.extend_from_slice(&buf[..n as usize]);
        }
        libc::close(fds[0]);
        let mut status = 0i32;
        libc::waitpid(pid, &mut status, 0);
        let text = String::from_utf8_lossy(&got).to_string();
        let mut it = text.splitn(2, '\n');
        let o = it.next().unwrap_or("");
        let d = it.next().unwrap_or("").to_string();
        match o {
            "same" => ("same", d),
            "err" => ("err", d),
            "panic" => ("panic", d),
            "diff" => ("diff", d),
            _ if libc::WIFSIGNALED(status)
                && (libc::WTERMSIG(status) == libc::SIGXCPU || libc::WTERMSIG(status) == libc::SIGKILL) =>
            {
                ("hang", "the trial exceeded 10 s of CPU time".to_string())
            }
            _ => ("abort", format!("status {status}")),
        }
    }
}

fn trial_inner(sess: &mut Session, vis: u64, baseline: &Value) -> (&'static str, String) {
    // fresh block cache and descriptor table for every trial
    sess.shared = crate::model::Shared::new(&sess.phys);
    let r = catch_unwind(AssertUnwindSafe(|| -> Result<Value, String> {
        sess.open().map_err(|e| format!("open:{e}"))?;
        read_set(sess, vis)
    }));
    sess.tree = None;
    match r {
        Ok(Ok(v)) => {
            if &v == baseline {
                ("same", String::new())
            } else {
                ("diff", format!("{v}").chars().take(400).collect())
            }
        }
        Ok(Err(e)) => ("err", e.chars().take(120).collect()),
        Err(_) => ("panic", String::new()),
    }
}

/// names the integrity unit an offset of a file falls into
fn unit_of(rel: &str, bytes: &[u8], off: usize) -> String {
    let kind = if rel.starts_with("tables/") {
        "table"
    } else if rel.starts_with("blobs/") {
        "blob"
    } else if rel == "current" {
        return "current".into();
    } else if rel.starts_with('v') {
        "version"
    } else {
        return format!("other:{rel}");
    };
    // sfa archives end with a table of contents; sections are found by scanning for it
    // through the crate's own reader would need the file on disk: use coarse thirds +
    // exact last 64 bytes (trailer) instead, refined by section names where known
    let n = bytes.len().max(1);
    if off + 64 >= n {
        format!("{kind}:trailer")
    } else if off * 3 < n {
        format!("{kind}:head")
    } else if off * 3 < 2 * n {
        format!("{kind}:mid")
    } else {
        format!("{kind}:tail")
    }
}

pub fn run(args: &[String]) -> i32 {
    let inp = crate::arg(args, "--in").expect("--in");
    let out = crate::arg(args, "--out").expect("--out");
    let nkeys: i64 = crate::arg(args, "--nkeys").map_or(4, |s| s.parse().expect("nkeys"));
    let stride: usize = crate::arg(args, "--stride").map_or(1, |s| s.parse().expect("stride"));
    let seed: u64 = crate::arg(args, "--seed").map_or(1, |s| s.parse().expect("seed"));
    let scratch = crate::arg(args, "--scratch").unwrap_or_else(|| format!("/dev/shm/verif-{}", std::process::id()));
    crate::install_hooks();
    // panics inside the code under test are data here: keep stderr quiet
    std::panic::set_hook(Box::new(|_| {}));
    let rd = BufReader::new(std::fs::File::open(&inp).expect("open input"));
    let mut wr = BufWriter::new(std::fs::File::create(&out).expect("create output"));
    let mut trials = 0u64;
    for (ln, line) in rd.lines().enumerate() {
        let line = line.expect("read");
        if line.trim().is_empty() {
            continue;
        }
        let v: Value = serde_json::from_str(&line).expect("json");
        let ops = v["ops"].as_array().cloned().unwrap_or_default();
        let mut phys = Phys::from_index(v["phys"].as_u64().unwrap_or(0) as u32);
        if let Some(bs) = v["block_size"].as_u64() {
            phys.block_size = bs as u32;
        }
        let conc = Concretise {
            key_alpha: v["key_alpha"].as_u64().unwrap_or(0) as u32,
            val_alpha: v["val_alpha"].as_u64().unwrap_or(0) as u32,
        };
        let blob: Option<BlobCfg> = crate::blob_from(&v["blob"]);
        let dir = PathBuf::from(&scratch).join(format!("c{ln}"));
        let mut sess = match Session::new(dir.clone(), conc, phys, blob, nkeys, vec![], None) {
            Ok(s) => s,
            Err(e) => {
                eprintln!("cannot create tree: {e}");
                return 2;
            }
        };
        for op in &ops {
            let op = sess.concretise_op(op);
            let (ret, _) = sess.exec(&op);
            if ret != "ok" {
                eprintln!("behaviour {ln}: op failed while building: {ret}");
                return 2;
            }
        }
        let vis = sess.vis.get();
        sess.tree = None; // close
        let snap = list_files(&dir);
        // baseline from an undamaged reopen
        sess.shared = crate::model::Shared::new(&sess.phys);
        if let Err(e) = sess.open() {
            eprintln!("behaviour {ln}: undamaged reopen failed: {e}");
            return 2;
        }
        let baseline = match read_set(&sess, vis) {
            Ok(b) => b,
            Err(e) => {
                eprintln!("behaviour {ln}: undamaged read set failed: {e}");
                return 2;
            }
        };
        sess.tree = None;
        restore(&dir, &snap);
        // group -> (trials, same, err, panic, diff, diffs)
        let mut groups: BTreeMap<(String, String, String), (u64, u64, u64, u64, u64, Vec<Value>)> = BTreeMap::new();
        let mut x = seed.wrapping_mul(0x9E37_79B9_7F4A_7C15) ^ (ln as u64);
        // spinning readers cost 10 s of CPU each: a handful is a verdict already, the rest of
        // the history's enumeration is skipped then
        let mut hangs = 0u32;
        for (rel, bytes) in &snap {
            if hangs >= 6 {
                break;
            }
            let n = bytes.len();
            // phase offset so that different seeds cover different positions
            x ^= x << 13;
            x ^= x >> 7;
            x ^= x << 17;
            let phase = if stride > 1 { (x as usize) % stride } else { 0 };
            let mut offs: Vec<usize> = (0..n).filter(|o| o % stride == phase).collect();
            // always include the boundaries
            for o in [0usize, 1, n.saturating_sub(1), n.saturating_sub(2), n / 2] {
                if o < n && !offs.contains(&o) {
                    offs.push(o);
                }
            }
            for off in offs {
                for (fname, mask) in [("flip01", 0x01u8), ("flip80", 0x80u8), ("flipff", 0xFFu8)] {
                    let mut b = bytes.clone();
                    b[off] ^= mask;
                    std::fs::write(dir.join(rel), &b).expect("write damaged file");
                    if hangs >= 6 {
                        break;
                    }
                    let (outc, detail) = trial(&mut sess, vis, &baseline);
                    if outc == "hang" {
                        hangs += 1;
                    }
                    restore(&dir, &snap);
                    trials += 1;
                    let g = groups
                        .entry((rel.clone(), unit_of(rel, bytes, off), fname.to_string()))
                        .or_insert((0, 0, 0, 0, 0, vec![]));
                    g.0 += 1;
                    match outc {
                        "same" => g.1 += 1,
                        "err" => g.2 += 1,
                        "panic" | "abort" => g.3 += 1,
                        _ => {
                            g.4 += 1;
                            if g.5.len() < 5 {
                                g.5.push(json!({"off": off, "mask": mask, "got": detail}));
                            }
                        }
                    }
                }
            }
            // truncations: every length on the stride grid plus the boundaries
            let mut lens: Vec<usize> = (0..n).filter(|o| o % (stride * 3).max(1) == phase % (stride * 3).max(1)).collect();
            for l in [0usize, 1, n.saturating_sub(1), n / 2] {
                if l < n && !lens.contains(&l) {
                    lens.push(l);
                }
            }
            for l in lens {
                std::fs::write(dir.join(rel), &bytes[..l]).expect("write truncated file");
                if hangs >= 6 {
                    break;
                }
                let (outc, detail) = trial(&mut sess, vis, &baseline);
                if outc == "hang" {
                    hangs += 1;
                }
                restore(&dir, &snap);
                trials += 1;
                let g = groups
                    .entry((rel.clone(), unit_of(rel, bytes, l), "truncate".to_string()))
                    .or_insert((0, 0, 0, 0, 0, vec![]));
                g.0 += 1;
                match outc {
                    "same" => g.1 += 1,
                    "err" => g.2 += 1,
                    "panic" | "abort" => g.3 += 1,
                    _ => {
                        g.4 += 1;
                        if g.5.len() < 5 {
                            g.5.push(json!({"len": l, "got": detail}));
                        }
                    }
                }
            }
        }
        for ((rel, unit, fault), (t, s, e, p, d, diffs)) in groups {
            let rec = json!({"beh": v.get("id").cloned().unwrap_or(json!(ln)), "file": rel, "unit": unit,
                "fault": fault, "trials": t, "same": s, "err": e, "panic": p, "diff": d, "diffs": diffs,
                "size": snap.get(&rel).map_or(0, Vec::len)});
            writeln!(wr, "{rec}").expect("write");
        }
        let _ = std::fs::remove_dir_all(&dir);
    }
    wr.flush().expect("flush");
    let _ = std::fs::remove_dir_all(&scratch);
    println!("{}", json!({"trials": trials}));
    0
}
