//! C05 / C16: opens materialised directory images with the real Config::open and dumps
//! the logical content (reads of every key and a full scan at the newest snapshot).
//! input line: {"dir": path, "phys": n, "key_alpha": n, "val_alpha": n, "blob": {..}|null, ...}
//! output line: the input plus {"open": "ok|err|panic", "gets": [...], "scan": [[k,v]..], "note": ..}

use crate::model::{make_config, Concretise, Phys, Shared};
use lsm_tree::{AbstractTree, Guard, SeqNo, SequenceNumberCounter};
use serde_json::{json, Value};
use std::io::{BufRead, BufReader, BufWriter, Write};
use std::panic::{catch_unwind, AssertUnwindSafe};
use std::path::PathBuf;

pub fn run(args: &[String]) -> i32 {
    let inp = crate::arg(args, "--in").expect("--in");
    let out = crate::arg(args, "--out").expect("--out");
    let nkeys: i64 = crate::arg(args, "--nkeys").map_or(4, |s| s.parse().expect("nkeys"));
    std::panic::set_hook(Box::new(|_| {}));
    let rd = BufReader::new(std::fs::File::open(&inp).expect("open input"));
    let mut wr = BufWriter::new(std::fs::File::create(&out).expect("create output"));
    let mut n = 0u64;
    for line in rd.lines() {
        let line = line.expect("read");
        if line.trim().is_empty() {
            continue;
        }
        let mut v: Value = serde_json::from_str(&line).expect("json");
        let dir = PathBuf::from(v["dir"].as_str().expect("dir"));
        let mut phys = Phys::from_index(v["phys"].as_u64().unwrap_or(0) as u32);
        if let Some(bs) = v["block_size"].as_u64() {
            phys.block_size = bs as u32;
        }
        let conc = Concretise {
            key_alpha: v["key_alpha"].as_u64().unwrap_or(0) as u32,
            val_alpha: v["val_alpha"].as_u64().unwrap_or(0) as u32,
        };
        let blob = crate::blob_from(&v["blob"]);
        let shared = Shared::new(&phys);
        let seq = SequenceNumberCounter::default();
        let vis = SequenceNumberCounter::default();
        let r = catch_unwind(AssertUnwindSafe(|| -> Result<(Vec<i64>, Vec<Value>), String> {
            let cfg = make_config(&dir, &seq, &vis, &phys, blob.as_ref(), &shared);
            let t = cfg.open().map_err(|e| format!("open:{e:?}"))?;
            let mut gets = vec![];
            for k in 1..=nkeys {
                let g = t.get(conc.key(k), SeqNo::MAX).map_err(|e| format!("get:{e:?}"))?;
                gets.push(g.map_or(0, |b| conc.val_back(&b)));
            }
            let mut scan = vec![];
            for g in t.iter(SeqNo::MAX, None) {
                let (k, val) = g.into_inner().map_err(|e| format!("scan:{e:?}"))?;
                scan.push(json!([conc.key_back(&k, nkeys), conc.val_back(&val)]));
            }
            Ok((gets, scan))
        }));
        match r {
            Ok(Ok((gets, scan))) => {
                v["open"] = json!("ok");
                v["gets"] = json!(gets);
                v["scan"] = json!(scan);
                v["note"] = json!("");
            }
            Ok(Err(e)) => {
                v["open"] = json!("err");
                v["gets"] = json!([]);
                v["scan"] = json!([]);
                v["note"] = json!(e);
            }
            Err(_) => {
                v["open"] = json!("panic");
                v["gets"] = json!([]);
                v["scan"] = json!([]);
                v["note"] = json!("panic");
            }
        }
        writeln!(wr, "{v}").expect("write");
        n += 1;
    }
    wr.flush().expect("flush");
    println!("{}", json!({"images": n}));
    0
}
