//! Runs operations on the real tree, projects its state, records observations.
//! Plain plumbing: no expectations are computed here.

use crate::model::{make_config, BlobCfg, Concretise, Phys, Shared};
use lsm_tree::verif::{Scripted, ScriptedChoice};
use lsm_tree::{AbstractTree, AnyTree, Guard, SeqNo, SequenceNumberCounter, Tree};
use serde_json::{json, Value};
use std::collections::BTreeMap;
use std::panic::{catch_unwind, AssertUnwindSafe};
use std::path::PathBuf;
use std::sync::{Arc, Mutex};

pub const TOP: u64 = 1_000_000; // model name of SeqNo::MAX

pub struct Session {
    pub dir: PathBuf,
    pub tree: Option<AnyTree>,
    pub seq: SequenceNumberCounter,
    pub vis: SequenceNumberCounter,
    pub conc: Concretise,
    pub phys: Phys,
    pub blob: Option<BlobCfg>,
    pub shared: Shared,
    pub snaps: Vec<u64>,
    pub nkeys: i64,
    /// last compaction choice reported by the worker hook
    pub last_choice: Arc<Mutex<Option<Vec<u64>>>>,
    /// compaction filter state (rules + what the filter was shown), if a filter is installed
    pub filter: Option<Arc<crate::filter::Shared>>,
    /// controlled clock (seconds), 0 = real time
    pub clock: u64,
    /// number of times the directory was littered (names of the leftovers)
    pub litter_no: u64,
    /// further read points (the mark a concurrent writer has published)
    pub extra_reads: Vec<u64>,
}

fn panic_msg(e: &Box<dyn std::any::Any + Send>) -> String {
    if let Some(s) = e.downcast_ref::<&str>() {
        (*s).to_string()
    } else if let Some(s) = e.downcast_ref::<String>() {
        s.clone()
    } else {
        "panic".to_string()
    }
}

impl Session {
    pub fn new(
        dir: PathBuf,
        conc: Concretise,
        phys: Phys,
        blob: Option<BlobCfg>,
        nkeys: i64,
        rules: Vec<crate::filter::Rule>,
        share: Option<Shared>,
    ) -> Result<Self, String> {
        let _ = std::fs::remove_dir_all(&dir);
        let seq = SequenceNumberCounter::default();
        let vis = SequenceNumberCounter::default();
        let shared = share.unwrap_or_else(|| Shared::new(&phys));
        let filter = if rules.is_empty() {
            None
        } else {
            Some(Arc::new(crate::filter::Shared {
                rules,
                conc: conc.clone(),
                nkeys,
                shown: Mutex::new(vec![]),
                finished: Mutex::new(0),
            }))
        };
        let mut s = Self {
            dir,
            tree: None,
            seq,
            vis,
            conc,
            phys,
            blob,
            shared,
            snaps: vec![],
            nkeys,
            last_choice: crate::LAST_CHOICE.clone(),
            filter,
            clock: 0,
            litter_no: 0,
            extra_reads: vec![],
        };
        s.open()?;
        Ok(s)
    }

    pub fn open(&mut self) -> Result<(), String> {
        let mut cfg = make_config(
            &self.dir,
            &self.seq,
            &self.vis,
            &self.phys,
            self.blob.as_ref(),
            &self.shared,
        );
        if let Some(f) = &self.filter {
            cfg = cfg.with_compaction_filter_factory(Some(Arc::new(crate::filter::RuleFactory(
                f.clone(),
            ))));
        }
        match catch_unwind(AssertUnwindSafe(|| cfg.open())) {
            Ok(Ok(t)) => {
                self.tree = Some(t);
                Ok(())
            }
            Ok(Err(e)) => Err(format!("err:{e:?}")),
            Err(e) => Err(format!("panic:{}", panic_msg(&e))),
        }
    }

    /// leftovers of a crashed or failed operation (C20): a partial table file, a partial blob
    /// file and a stale version file under ids no version names
    fn litter(&mut self) {
        self.litter_no += 1;
        let id = 900_000 + self.litter_no;
        for sub in ["tables", "blobs"] {
            let d = self.dir.join(sub);
            if !d.is_dir() {
                continue;
            }
            // half of an existing file of that kind if there is one, junk otherwise
            let donor = std::fs::read_dir(&d)
                .ok()
                .and_then(|mut rd| rd.next())
                .and_then(|e| e.ok())
                .and_then(|e| std::fs::read(e.path()).ok());
            let bytes = match donor {
                Some(b) if self.litter_no % 2 == 0 => b[..b.len() / 2].to_vec(),
                Some(b) if self.litter_no % 3 == 0 => b,
                _ => b"partial".to_vec(),
            };
            let _ = std::fs::write(d.join(id.to_string()), bytes);
        }
        let _ = std::fs::write(self.dir.join(format!("v{id}")), b"stale");
    }

    pub fn index(&self) -> &Tree {
        match self.tree.as_ref().expect("tree open") {
            AnyTree::Standard(t) => t,
            AnyTree::Blob(b) => &b.index,
        }
    }

    fn t(&self) -> &AnyTree {
        self.tree.as_ref().expect("tree open")
    }

    fn seqno_arg(s: u64) -> SeqNo {
        if s >= TOP {
            SeqNo::MAX
        } else {
            s
        }
    }

    /// doubled-key bound point: 2k = key k, 2k+1 = a byte string strictly between k and k+1
    pub fn bound_key(&self, x: i64) -> Vec<u8> {
        if x % 2 == 0 {
            self.conc.key(x / 2)
        } else if x < 2 {
            vec![0u8]
        } else {
            let mut k = self.conc.key((x - 1) / 2);
            k.push(1);
            k
        }
    }

    /// real table id at position (level, run (1-based), index (1-based))
    fn table_at(&self, pos: &Value) -> Option<u64> {
        let lvl = pos.get(0)?.as_u64()? as usize;
        let run = pos.get(1)?.as_u64()? as usize;
        let idx = pos.get(2)?.as_u64()? as usize;
        let v = self.t().current_version();
        let level = v.level(lvl)?;
        let r = level.iter().nth(run.checked_sub(1)?)?;
        r.get(idx.checked_sub(1)?).map(lsm_tree::Table::id)
    }

    /// Replaces symbolic arguments ("w":"safe", release "which") by concrete ones, so
    /// that the logged operation is self-contained.
    pub fn concretise_op(&self, op: &Value) -> Value {
        let mut op = op.clone();
        if op.get("w").and_then(Value::as_str).is_some() {
            let w = match op["w"].as_str() {
                Some("safe") => {
                    if let Some(m) = self.snaps.iter().min() {
                        m.saturating_sub(1)
                    } else {
                        self.vis.get()
                    }
                }
                // exactly the oldest held snapshot (a reader at S needs the newest version with
                // seqno < S, which a watermark of S still retains)
                Some("at") => {
                    if let Some(m) = self.snaps.iter().min() {
                        *m
                    } else {
                        self.vis.get()
                    }
                }
                // above every seqno ever issued when no snapshot is held
                Some("high") => {
                    if let Some(m) = self.snaps.iter().min() {
                        m.saturating_sub(1)
                    } else {
                        TOP
                    }
                }
                _ => 0,
            };
            op["w"] = json!(w);
        }
        if op["op"].as_str() == Some("scan") && op.get("S").and_then(Value::as_u64).is_none() {
            let s = match op["S"].as_str() {
                Some("vis") => self.vis.get(),
                Some("oldest") => self.snaps.iter().min().copied().unwrap_or(TOP),
                Some("newest") => self.snaps.iter().max().copied().unwrap_or(TOP),
                _ => TOP,
            };
            op["S"] = json!(s);
        }
        if op["op"].as_str() == Some("release") && op.get("S").and_then(Value::as_u64).is_none() {
            let s = match op["which"].as_str() {
                Some("newest") => self.snaps.iter().max().copied(),
                _ => self.snaps.iter().min().copied(),
            };
            op["S"] = json!(s.unwrap_or(TOP + 1));
        }
        op
    }

    /// Executes one operation. Returns (ret, extra info to log).
    pub fn exec(&mut self, op: &Value) -> (String, Value) {
        let kind = op["op"].as_str().unwrap_or("").to_string();
        let mut info = json!({"s0": self.seq.get()});
        *self.last_choice.lock().expect("lock") = None;
        let r = catch_unwind(AssertUnwindSafe(|| -> Result<(), String> {
            match kind.as_str() {
                "write" => {
                    let s = self.seq.next();
                    for it in op["items"].as_array().ok_or("skip:arg items")? {
                        let k = self.conc.key(it["k"].as_i64().ok_or("skip:arg k")?);
                        match it["t"].as_str().ok_or("skip:arg t")? {
                            "V" => {
                                let v = self.conc.val(it["v"].as_i64().ok_or("skip:arg v")?);
                                self.t().insert(k, v, s);
                            }
                            "T" => {
                                self.t().remove(k, s);
                            }
                            "W" => {
                                self.t().remove_weak(k, s);
                            }
                            x => return Err(format!("skip:bad type {x}")),
                        }
                    }
                    self.vis.fetch_max(s + 1);
                    info["s"] = json!(s);
                    Ok(())
                }
                "writes" => {
                    // two writers racing: seqnos in item order, inserts in reverse order
                    let items = op["items"].as_array().ok_or("skip:arg items")?;
                    let seqs: Vec<u64> = items.iter().map(|_| self.seq.next()).collect();
                    for (it, s) in items.iter().zip(seqs.iter()).rev() {
                        let k = self.conc.key(it["k"].as_i64().ok_or("skip:arg k")?);
                        match it["t"].as_str().ok_or("skip:arg t")? {
                            "V" => {
                                let v = self.conc.val(it["v"].as_i64().ok_or("skip:arg v")?);
                                self.t().insert(k, v, *s);
                            }
                            "T" => {
                                self.t().remove(k, *s);
                            }
                            x => return Err(format!("skip:bad type {x}")),
                        }
                    }
                    if let Some(last) = seqs.last() {
                        self.vis.fetch_max(last + 1);
                    }
                    info["s"] = json!(seqs.first().copied().unwrap_or(0));
                    Ok(())
                }
                "rotate" => {
                    self.t().rotate_memtable();
                    Ok(())
                }
                "flush" => {
                    let w = op["w"].as_u64().ok_or("skip:arg w")?;
                    let lock = self.t().get_flush_lock();
                    self.t()
                        .flush(&lock, Self::seqno_arg(w))
                        .map(|_| ())
                        .map_err(|e| format!("err:{e:?}"))
                }
                "compact" => {
                    let w = op["w"].as_u64().ok_or("skip:arg w")?;
                    let dest = op["dest"].as_u64().unwrap_or(0) as u8;
                    let mut ids = vec![];
                    for p in op["tables"].as_array().ok_or("skip:arg tables")? {
                        match self.table_at(p) {
                            Some(id) => ids.push(id),
                            None => return Err("skip:position".to_string()),
                        }
                    }
                    info["ids"] = json!(ids);
                    let choice = match op["kind"].as_str().ok_or("skip:arg kind")? {
                        "merge" => ScriptedChoice::Merge {
                            table_ids: ids,
                            dest_level: dest,
                            canonical_level: dest,
                            target_size: if op["split"].as_str() == Some("all") {
                                1
                            } else {
                                u64::MAX
                            },
                        },
                        "move" => ScriptedChoice::Move {
                            table_ids: ids,
                            dest_level: dest,
                        },
                        "drop" => ScriptedChoice::Drop { table_ids: ids },
                        x => return Err(format!("skip:bad kind {x}")),
                    };
                    self.t()
                        .compact(Arc::new(Scripted(choice)), Self::seqno_arg(w))
                        .map_err(|e| format!("err:{e:?}"))
                }
                "leveled" => {
                    let w = op["w"].as_u64().ok_or("skip:arg w")?;
                    let l0 = op["l0"].as_u64().unwrap_or(2) as u8;
                    let ts = op["ts"].as_u64().unwrap_or(64);
                    let strat = lsm_tree::compaction::Leveled::default()
                        .with_l0_threshold(l0)
                        .with_table_target_size(ts);
                    self.t()
                        .compact(Arc::new(strat), Self::seqno_arg(w))
                        .map_err(|e| format!("err:{e:?}"))
                }
                "movedown" | "pulldown" => {
                    let w = op["w"].as_u64().ok_or("skip:arg w")?;
                    let a = op["a"].as_u64().ok_or("skip:arg a")? as u8;
                    let b = op["b"].as_u64().ok_or("skip:arg b")? as u8;
                    let r = if kind == "movedown" {
                        self.t().compact(
                            Arc::new(lsm_tree::compaction::MoveDown(a, b)),
                            Self::seqno_arg(w),
                        )
                    } else {
                        self.t().compact(
                            Arc::new(lsm_tree::compaction::PullDown(a, b)),
                            Self::seqno_arg(w),
                        )
                    };
                    r.map_err(|e| format!("err:{e:?}"))
                }
                "clock" => {
                    let t = op["t"].as_u64().ok_or("skip:arg t")?;
                    lsm_tree::verif::set_clock(Some(std::time::Duration::from_secs(t)));
                    self.clock = t;
                    Ok(())
                }
                "fifo" => {
                    let w = op["w"].as_u64().ok_or("skip:arg w")?;
                    // the limit is given as a class relative to the measured size
                    let v = self.t().current_version();
                    let total: u64 = v
                        .level(0)
                        .map(|l| l.iter().flat_map(|r| r.iter()).map(|t| t.metadata.file_size).sum())
                        .unwrap_or(0);
                    let blob_bytes: u64 = lsm_tree::verif::blob_file_facts(self.index())
                        .iter()
                        .map(|f| f.3)
                        .sum();
                    let size = total + blob_bytes;
                    let limit = match op["limit"].as_str() {
                        Some("ge_total") => size,
                        Some("total_minus_1") => size.saturating_sub(1),
                        Some("half") => size / 2,
                        Some("one") => 1,
                        _ => op["limit"].as_u64().unwrap_or(u64::MAX),
                    };
                    let ttl = op["ttl"].as_u64();
                    info["limit"] = json!(limit);
                    info["size"] = json!(size);
                    info["now"] = json!(self.clock);
                    let strat = lsm_tree::compaction::Fifo::new(limit, ttl);
                    self.t()
                        .compact(Arc::new(strat), Self::seqno_arg(w))
                        .map_err(|e| format!("err:{e:?}"))
                }
                "major" => {
                    let w = op["w"].as_u64().ok_or("skip:arg w")?;
                    let target = if op["split"].as_str() == Some("all") {
                        1
                    } else {
                        u64::MAX
                    };
                    self.t()
                        .major_compact(target, Self::seqno_arg(w))
                        .map_err(|e| format!("err:{e:?}"))
                }
                "scan" => {
                    use std::ops::Bound;
                    let sv = op["S"].as_u64().ok_or("skip:arg S")?;
                    let sq = Self::seqno_arg(sv);
                    let pat: Vec<String> = op["pat"]
                        .as_array()
                        .ok_or("skip:arg pat")?
                        .iter()
                        .filter_map(|x| x.as_str().map(str::to_string))
                        .collect();
                    if pat.is_empty() {
                        return Err("skip:arg pat".into());
                    }
                    // optional overlay memtable (own seqnos far above the tree's)
                    let overlay = op.get("overlay").and_then(Value::as_array).map(|items| {
                        let mt = lsm_tree::Memtable::new(9_999);
                        for (j, it) in items.iter().enumerate() {
                            let k = self.conc.key(it["k"].as_i64().unwrap_or(1));
                            let s = 2_000_000 + j as u64;
                            let vt = match it["t"].as_str() {
                                Some("T") => lsm_tree::ValueType::Tombstone,
                                Some("W") => lsm_tree::ValueType::WeakTombstone,
                                _ => lsm_tree::ValueType::Value,
                            };
                            let v = if vt == lsm_tree::ValueType::Value {
                                self.conc.val(it["v"].as_i64().unwrap_or(1))
                            } else {
                                vec![]
                            };
                            mt.insert(lsm_tree::InternalValue::from_components(k, v, s, vt));
                        }
                        (Arc::new(mt), SeqNo::MAX)
                    });
                    let mut it = if let Some(pfx) = op.get("prefix").filter(|x| !x.is_null()) {
                        let k = pfx["k"].as_i64().ok_or("skip:arg prefix k")?;
                        let n = pfx["n"].as_u64().ok_or("skip:arg prefix n")? as usize;
                        let key = self.conc.key(k);
                        let p = key[..n.min(key.len())].to_vec();
                        let pk: Vec<i64> = (1..=self.nkeys)
                            .filter(|x| self.conc.key(*x).starts_with(&p))
                            .collect();
                        info["pk"] = json!(pk);
                        self.t().prefix(p, sq, overlay)
                    } else {
                        let mk = |b: &Value| -> Result<Bound<Vec<u8>>, String> {
                            let kind = b.get(0).and_then(Value::as_str).ok_or("skip:arg bound kind")?;
                            let x = b.get(1).and_then(Value::as_i64).ok_or("skip:arg bound x")?;
                            let key = if kind == "U" { vec![] } else { self.bound_key(x) };
                            Ok(match kind {
                                "I" => Bound::Included(key),
                                "E" => Bound::Excluded(key),
                                _ => Bound::Unbounded,
                            })
                        };
                        let lo = mk(&op["lo"])?;
                        let hi = mk(&op["hi"])?;
                        self.t().range::<Vec<u8>, _>((lo, hi), sq, overlay)
                    };
                    let mut res = vec![];
                    let mut i = 0usize;
                    let mut last_front = true;
                    loop {
                        let front = pat[i % pat.len()] != "B";
                        last_front = front;
                        let g = if front { it.next() } else { it.next_back() };
                        i += 1;
                        match g {
                            None => break,
                            Some(g) => {
                                let (k, v) = g.into_inner().map_err(|e| format!("err:{e:?}"))?;
                                res.push(json!([
                                    self.conc.key_back(&k, self.nkeys),
                                    self.conc.val_back(&v)
                                ]));
                            }
                        }
                        if res.len() > 10_000 {
                            return Err("err:scan does not terminate".into());
                        }
                    }
                    // once one end reports exhaustion the other end must agree
                    let other = if last_front { it.next_back() } else { it.next() };
                    info["tail_ok"] = json!(other.is_none());
                    info["res"] = json!(res);
                    Ok(())
                }
                "droprange" => {
                    use std::ops::Bound;
                    let mk = |b: &Value| -> Result<Bound<Vec<u8>>, String> {
                        let kind = b.get(0).and_then(Value::as_str).ok_or("skip:arg bound kind")?;
                        let x = b.get(1).and_then(Value::as_i64).ok_or("skip:arg bound x")?;
                        let key = if kind == "U" { vec![] } else { self.bound_key(x) };
                        Ok(match kind {
                            "I" => Bound::Included(key),
                            "E" => Bound::Excluded(key),
                            _ => Bound::Unbounded,
                        })
                    };
                    let lo = mk(&op["lo"])?;
                    let hi = mk(&op["hi"])?;
                    self.t()
                        .drop_range::<Vec<u8>, _>((lo, hi))
                        .map_err(|e| format!("err:{e:?}"))
                }
                "clear" => self.t().clear().map_err(|e| format!("err:{e:?}")),
                "ingest" => {
                    let mut ing = self.t().ingestion().map_err(|e| format!("err:{e:?}"))?;
                    for it in op["items"].as_array().ok_or("skip:arg items")? {
                        let k = self.conc.key(it["k"].as_i64().ok_or("skip:arg k")?);
                        let r = match it["t"].as_str().ok_or("skip:arg t")? {
                            "V" => ing.write(k, self.conc.val(it["v"].as_i64().ok_or("skip:arg v")?)),
                            "T" => ing.write_tombstone(k),
                            "W" => ing.write_weak_tombstone(k),
                            x => return Err(format!("skip:bad type {x}")),
                        };
                        r.map_err(|e| format!("err:{e:?}"))?;
                    }
                    ing.finish().map_err(|e| format!("err:{e:?}"))?;
                    info["g"] = json!(self.seq.get().saturating_sub(1));
                    Ok(())
                }
                "reopen" => {
                    self.snaps.clear();
                    self.extra_reads.clear();
                    self.tree = None;
                    if op["litter"].as_u64().unwrap_or(0) != 0 {
                        self.litter();
                    }
                    self.open()
                }
                "snap" => {
                    let s = self.vis.get();
                    if !self.snaps.contains(&s) {
                        self.snaps.push(s);
                    }
                    info["S"] = json!(s);
                    Ok(())
                }
                "release" => {
                    let s = op["S"].as_u64().ok_or("skip:arg S")?;
                    self.snaps.retain(|x| *x != s);
                    Ok(())
                }
                x => Err(format!("skip:unknown op {x}")),
            }
        }));
        if let Some(c) = self.last_choice.lock().expect("lock").clone() {
            info["choice"] = json!(c);
        }
        if let Some(f) = &self.filter {
            let shown: Vec<(i64, i64)> = std::mem::take(&mut *f.shown.lock().expect("lock"));
            info["shown"] = json!(shown.iter().map(|(k, v)| json!([k, v])).collect::<Vec<_>>());
        }
        let ret = match r {
            Ok(Ok(())) => "ok".to_string(),
            Ok(Err(e)) => e,
            Err(e) => format!("panic:{}", panic_msg(&e)),
        };
        (ret, info)
    }

    /// value bytes of an Indirection entry resolved through super version `hist_index`
    fn resolve(&self, hist_index: usize, key: &[u8], value: &[u8]) -> i64 {
        match catch_unwind(AssertUnwindSafe(|| {
            lsm_tree::verif::resolve_indirection(self.index(), hist_index, key, value)
        })) {
            Ok(Ok(Some(v))) => self.conc.val_back(&v),
            Ok(Ok(None)) => -5, // dangling pointer
            Ok(Err(_)) => -2,
            Err(_) => -3,
        }
    }

    fn entry_json(&self, key: &[u8], seqno: u64, vt: lsm_tree::ValueType, value: &[u8]) -> Value {
        let t = match vt {
            lsm_tree::ValueType::Value => "V",
            lsm_tree::ValueType::Tombstone => "T",
            lsm_tree::ValueType::WeakTombstone => "W",
            lsm_tree::ValueType::Indirection => "I",
        };
        let v = match vt {
            lsm_tree::ValueType::Value => self.conc.val_back(value),
            _ => 0,
        };
        json!({"k": self.conc.key_back(key, self.nkeys), "s": seqno, "t": t, "v": v})
    }

    /// directory listing: table ids, blob file ids, names in the tree's root folder
    fn listing(&self) -> Value {
        let ids = |sub: &str| -> Vec<u64> {
            let mut v: Vec<u64> = std::fs::read_dir(self.dir.join(sub))
                .map(|rd| {
                    rd.flatten()
                        .filter_map(|e| e.file_name().to_str().and_then(|s| s.parse::<u64>().ok()))
                        .collect()
                })
                .unwrap_or_default();
            v.sort_unstable();
            v
        };
        let mut vfiles: Vec<u64> = vec![];
        let mut other: Vec<String> = vec![];
        if let Ok(rd) = std::fs::read_dir(&self.dir) {
            for e in rd.flatten() {
                if e.path().is_dir() {
                    continue;
                }
                let name = e.file_name().to_string_lossy().to_string();
                if let Some(n) = name.strip_prefix('v').and_then(|x| x.parse::<u64>().ok()) {
                    vfiles.push(n);
                } else {
                    other.push(name);
                }
            }
        }
        vfiles.sort_unstable();
        other.sort();
        json!({"tables": ids("tables"), "blobs": ids("blobs"), "v": vfiles, "other": other})
    }

    /// Projects the whole state of the tree.
    pub fn project(&self) -> Value {
        let ls = self.listing();
        let idx = self.index();
        let d = lsm_tree::verif::dump(idx);
        let mut mems: BTreeMap<u64, Value> = BTreeMap::new();
        let mut tbls: BTreeMap<u64, Value> = BTreeMap::new();
        let mut hist = vec![];
        let is_blob = self.blob.is_some();
        for (hi, sv) in d.history.iter().enumerate() {
            let mut dangling: Vec<Value> = vec![];
            let mut all = vec![sv.active.clone()];
            all.extend(sv.sealed.iter().cloned());
            for m in all {
                mems.entry(m.id).or_insert_with(|| {
                    let es: Vec<Value> = m
                        .iter()
                        .map(|e| {
                            self.entry_json(&e.key.user_key, e.key.seqno, e.key.value_type, &e.value)
                        })
                        .collect();
                    json!({"id": m.id, "e": es})
                });
            }
            let mut lv = vec![];
            for level in &sv.levels {
                let mut runs = vec![];
                for run in level {
                    let mut ids = vec![];
                    for t in run {
                        ids.push(t.id());
                        tbls.entry(t.id()).or_insert_with(|| self.table_json(t, hi));
                        if is_blob {
                            // every pointer of every table must resolve in this very version
                            if let Ok(items) = catch_unwind(AssertUnwindSafe(|| {
                                t.iter().filter_map(Result::ok).collect::<Vec<_>>()
                            })) {
                                for e in items {
                                    if e.key.value_type == lsm_tree::ValueType::Indirection
                                        && self.resolve(hi, &e.key.user_key, &e.value) < 0
                                    {
                                        dangling.push(json!([
                                            t.id(),
                                            self.conc.key_back(&e.key.user_key, self.nkeys),
                                            e.key.seqno
                                        ]));
                                    }
                                }
                            }
                        }
                    }
                    runs.push(json!(ids));
                }
                lv.push(json!(runs));
            }
            hist.push(json!({
                "s": sv.seqno, "vid": sv.version_id, "act": sv.active.id,
                "sealed": sv.sealed.iter().map(|m| m.id).collect::<Vec<_>>(),
                "lv": lv,
                "blobs": sv.blob_file_ids,
                "gc": sv.gc_stats.iter().map(|(i,l,b,o)| json!([i,l,b,o])).collect::<Vec<_>>(),
                "dangling": dangling,
            }));
        }
        let mut snaps = self.snaps.clone();
        snaps.sort_unstable();
        json!({
            "seq": self.seq.get(), "vis": self.vis.get(),
            "memId": idx.memtable_id_counter.get(), "tblId": idx.table_id_counter.get(),
            "mems": mems.into_values().collect::<Vec<_>>(),
            "tbls": tbls.into_values().collect::<Vec<_>>(),
            "hist": hist, "hidden": d.hidden, "snaps": snaps,
            "bfs": self.blob_files_json(),
            "ls": ls,
        })
    }

    fn blob_files_json(&self) -> Value {
        if self.blob.is_none() {
            return json!([]);
        }
        let files = lsm_tree::verif::dump_blob_files(self.index());
        json!(files
            .iter()
            .map(|f| {
                json!({
                    "id": f.id, "n": f.item_count, "bytes": f.total_uncompressed_bytes,
                    "cbytes": f.total_compressed_bytes, "deleted": f.is_deleted,
                    "err": f.error.clone().unwrap_or_default(),
                    "exists": self.dir.join("blobs").join(f.id.to_string()).exists(),
                    "blobs": f.blobs.iter().map(|b| json!([
                        self.conc.key_back(&b.key, self.nkeys), b.seqno, b.offset,
                        b.uncompressed_len, b.on_disk_len
                    ])).collect::<Vec<_>>(),
                })
            })
            .collect::<Vec<_>>())
    }

    fn table_json(&self, t: &lsm_tree::Table, hist_index: usize) -> Value {
        let g = t.global_seqno();
        let mut es = vec![];
        let mut err = json!("");
        let ptrs_cell = std::cell::RefCell::new(Vec::<Value>::new());
        let r = catch_unwind(AssertUnwindSafe(|| {
            let mut ptrs = ptrs_cell.borrow_mut();
            let mut out = vec![];
            for item in t.iter() {
                match item {
                    Ok(e) => {
                        let mut j = self.entry_json(
                            &e.key.user_key,
                            e.key.seqno.wrapping_sub(g),
                            e.key.value_type,
                            &e.value,
                        );
                        if e.key.value_type == lsm_tree::ValueType::Indirection {
                            j["v"] = json!(self.resolve(hist_index, &e.key.user_key, &e.value));
                            if let Some((bf, off, dsz, sz)) = lsm_tree::verif::decode_indirection(&e.value) {
                                ptrs.push(json!([j["k"], e.key.seqno.wrapping_sub(g), bf, off, dsz, sz]));
                            }
                        }
                        out.push(j);
                    }
                    Err(e) => return (out, Some(format!("{e:?}"))),
                }
            }
            (out, None)
        }));
        match r {
            Ok((out, e)) => {
                es = out;
                if let Some(e) = e {
                    err = json!(e);
                }
            }
            Err(e) => err = json!(format!("panic:{}", panic_msg(&e))),
        }
        let (lo, hi) = lsm_tree::verif::table_seqnos(t);
        let kr = &t.metadata.key_range;
        let links = lsm_tree::verif::table_blob_links(t)
            .map(|v| v.iter().map(|(a, b, c, d)| json!([a, b, c, d])).collect::<Vec<_>>())
            .unwrap_or_default();
        let ptrs = ptrs_cell.into_inner();
        json!({
            "id": t.id(), "g": g, "e": es, "err": err, "ptrs": ptrs, "links": links,
            "meta": {
                "min": self.conc.key_back(kr.min(), self.nkeys),
                "max": self.conc.key_back(kr.max(), self.nkeys),
                "lo": lo, "hi": hi,
                "n": t.metadata.item_count,
                "tomb": t.metadata.tombstone_count,
                "wtomb": t.metadata.weak_tombstone_count,
                "size": t.metadata.file_size,
                "created": (u128::from(t.metadata.created_at) / 1_000_000_000) as u64 % 1_000_000_000,
                "bbytes": t.referenced_blob_bytes().unwrap_or(0),
            }
        })
    }

    fn read_points(&self) -> Vec<u64> {
        let mut v = vec![TOP, self.vis.get()];
        v.extend(self.snaps.iter().copied());
        v.extend(self.extra_reads.iter().copied());
        v.sort_unstable();
        v.dedup();
        v
    }

    /// Observations: point reads and full scans at every read point, high-water marks.
    pub fn observe(&self) -> Value {
        let mut gets = vec![];
        let mut scans = vec![];
        let mut notes: Vec<String> = vec![];
        for s in self.read_points() {
            let sq = Self::seqno_arg(s);
            let mut row = vec![];
            for k in 1..=self.nkeys {
                let key = self.conc.key(k);
                let r = catch_unwind(AssertUnwindSafe(|| {
                    let g = self.t().get(&key, sq);
                    let c = self.t().contains_key(&key, sq);
                    let z = self.t().size_of(&key, sq);
                    (g, c, z)
                }));
                let v = match r {
                    Ok((Ok(g), Ok(c), Ok(z))) => {
                        let mv = match &g {
                            Some(b) => self.conc.val_back(b),
                            None => 0,
                        };
                        let consistent = c == g.is_some()
                            && z == g.as_ref().map(|b| b.len() as u32);
                        if consistent {
                            json!(mv)
                        } else {
                            notes.push(format!("S={s} k={k} inconsistent:get={mv},contains={c},size={z:?}"));
                            json!(-4)
                        }
                    }
                    Ok(other) => {
                        notes.push(format!("S={s} k={k} err:{other:?}"));
                        json!(-2)
                    }
                    Err(e) => {
                        notes.push(format!("S={s} k={k} panic:{}", panic_msg(&e)));
                        json!(-3)
                    }
                };
                row.push(v);
            }
            gets.push(json!({"S": s, "v": row}));

            let r = catch_unwind(AssertUnwindSafe(|| -> Result<Vec<Value>, String> {
                let mut out = vec![];
                for g in self.t().iter(sq, None) {
                    let (k, v) = g.into_inner().map_err(|e| format!("err:{e:?}"))?;
                    out.push(json!([self.conc.key_back(&k, self.nkeys), self.conc.val_back(&v)]));
                }
                Ok(out)
            }));
            let sc = match r {
                Ok(Ok(v)) => json!(v),
                Ok(Err(e)) => {
                    notes.push(format!("S={s} scan {e}"));
                    json!([[-2, -2]])
                }
                Err(e) => {
                    notes.push(format!("S={s} scan panic:{}", panic_msg(&e)));
                    json!([[-3, -3]])
                }
            };
            let extra = catch_unwind(AssertUnwindSafe(|| -> Result<Value, String> {
                let first = match self.t().first_key_value(sq, None) {
                    Some(g) => self.conc.key_back(&g.key().map_err(|e| format!("err:{e:?}"))?, self.nkeys),
                    None => 0,
                };
                let last = match self.t().last_key_value(sq, None) {
                    Some(g) => self.conc.key_back(&g.key().map_err(|e| format!("err:{e:?}"))?, self.nkeys),
                    None => 0,
                };
                let len = self.t().len(sq, None).map_err(|e| format!("err:{e:?}"))?;
                let empty = self.t().is_empty(sq, None).map_err(|e| format!("err:{e:?}"))?;
                Ok(json!({"first": first, "last": last, "len": len, "empty": empty}))
            }));
            let extra = match extra {
                Ok(Ok(v)) => v,
                Ok(Err(e)) => {
                    notes.push(format!("S={s} first/last/len {e}"));
                    json!({"first": -2, "last": -2, "len": -2, "empty": false})
                }
                Err(e) => {
                    notes.push(format!("S={s} first/last/len panic:{}", panic_msg(&e)));
                    json!({"first": -3, "last": -3, "len": -3, "empty": false})
                }
            };
            scans.push(json!({"S": s, "r": sc, "x": extra}));
        }
        let opt = |x: Option<u64>| x.map_or(-1i64, |v| v as i64);
        json!({
            "get": gets, "scan": scans,
            "hi": {
                "pers": opt(self.t().get_highest_persisted_seqno()),
                "mem": opt(self.t().get_highest_memtable_seqno()),
                "all": opt(self.t().get_highest_seqno()),
            },
            "tables": self.t().table_count(),
            "blob_files": self.t().blob_file_count(),
            "stale_blob_bytes": self.t().stale_blob_bytes(),
            "notes": notes,
        })
    }
}
