//! A deterministic compaction filter driven by a rule table, logging what it was shown.
//! Rules: [{"k": <model key>, "vp": 0|1|2, "act": "keep|remove|removeweak|destroy|replace", "to": <offset>}]
//! A rule applies to key k when vp = 2, or when value % 2 == vp. First matching rule wins.

use crate::model::Concretise;
use lsm_tree::compaction::filter::{CompactionFilter, Context, Factory, ItemAccessor, Verdict};
use serde_json::Value;
use std::sync::{Arc, Mutex};

#[derive(Clone, Debug)]
pub struct Rule {
    pub k: i64,
    pub vp: i64,
    pub act: String,
    pub to: i64,
}

pub fn parse_rules(v: &Value) -> Vec<Rule> {
    v.as_array()
        .map(|a| {
            a.iter()
                .map(|r| Rule {
                    k: r["k"].as_i64().unwrap_or(0),
                    vp: r["vp"].as_i64().unwrap_or(2),
                    act: r["act"].as_str().unwrap_or("keep").to_string(),
                    to: r["to"].as_i64().unwrap_or(100),
                })
                .collect()
        })
        .unwrap_or_default()
}

pub struct Shared {
    pub rules: Vec<Rule>,
    pub conc: Concretise,
    pub nkeys: i64,
    /// (model key, model value) of every item shown since the last take()
    pub shown: Mutex<Vec<(i64, i64)>>,
    pub finished: Mutex<u64>,
}

pub struct RuleFactory(pub Arc<Shared>);

impl Factory for RuleFactory {
    fn name(&self) -> &str {
        "VerifRuleFilter"
    }

    fn make_filter(&self, _ctx: &Context) -> Box<dyn CompactionFilter> {
        Box::new(RuleFilter(self.0.clone()))
    }
}

struct RuleFilter(Arc<Shared>);

impl CompactionFilter for RuleFilter {
    fn filter_item(&mut self, item: ItemAccessor<'_>, _ctx: &Context) -> lsm_tree::Result<Verdict> {
        let k = self.0.conc.key_back(item.key(), self.0.nkeys);
        let v = self.0.conc.val_back(&item.value()?);
        self.0.shown.lock().expect("lock").push((k, v));
        for r in &self.0.rules {
            if r.k == k && (r.vp == 2 || (v >= 0 && v % 2 == r.vp)) {
                return Ok(match r.act.as_str() {
                    "remove" => Verdict::Remove,
                    "removeweak" => Verdict::RemoveWeak,
                    "destroy" => Verdict::Destroy,
                    "replace" => Verdict::ReplaceValue(self.0.conc.val(v + r.to).into()),
                    _ => Verdict::Keep,
                });
            }
        }
        Ok(Verdict::Keep)
    }

    fn finish(self: Box<Self>) {
        *self.0.finished.lock().expect("lock") += 1;
    }
}
