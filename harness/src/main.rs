//! Harness: drives the real lsm-tree and records traces for the TLA+ trace specs.
mod conc;
mod corrupt;
mod crashopen;
mod exec;
mod filter;
mod free;
mod model;
mod tablecase;

use exec::Session;
use model::{BlobCfg, Concretise, Phys};
use serde_json::{json, Value};
use std::io::{BufRead, BufReader, BufWriter, Write};
use std::path::PathBuf;
use std::sync::{Arc, LazyLock, Mutex};

pub static LAST_CHOICE: LazyLock<Arc<Mutex<Option<Vec<u64>>>>> =
    LazyLock::new(|| Arc::new(Mutex::new(None)));

pub fn arg(args: &[String], name: &str) -> Option<String> {
    args.iter()
        .position(|a| a == name)
        .and_then(|i| args.get(i + 1).cloned())
}

pub fn install_hooks() {
    let lc = LAST_CHOICE.clone();
    lsm_tree::verif::set_event_handler(Some(Arc::new(move |name, args| {
        if name == "choice" {
            *lc.lock().expect("lock") = Some(args.to_vec());
        }
    })));
}

pub fn blob_from(v: &Value) -> Option<BlobCfg> {
    if v.is_null() {
        return None;
    }
    Some(BlobCfg {
        threshold: v["threshold"].as_u64().unwrap_or(64) as u32,
        file_target: v["file_target"].as_u64().unwrap_or(1 << 26),
        staleness: v["staleness"].as_f64().unwrap_or(0.5) as f32,
        age_cutoff: v["age_cutoff"].as_f64().unwrap_or(1.0) as f32,
        lz4: v["lz4"].as_bool().unwrap_or(false),
    })
}

/// replay: behaviours (one JSON per line: {"id":..,"ops":[..],"phys":n,"key_alpha":n,
/// "val_alpha":n,"blob":{..}|null}, or a bare array of ops) -> trace ndjson
fn replay(args: &[String]) -> i32 {
    let inp = arg(args, "--in").expect("--in");
    let out = arg(args, "--out").expect("--out");
    let nkeys: i64 = arg(args, "--nkeys").map_or(3, |s| s.parse().expect("nkeys"));
    let scratch = arg(args, "--scratch").unwrap_or_else(|| format!("/dev/shm/verif-{}", std::process::id()));
    let def_phys: u32 = arg(args, "--phys").map_or(0, |s| s.parse().expect("phys"));
    let phys_mod: u32 = arg(args, "--phys-rotate").map_or(0, |s| s.parse().expect("phys-rotate"));
    let def_blob: Value = arg(args, "--blob").map_or(Value::Null, |s| serde_json::from_str(&s).expect("blob json"));
    let def_ka: u32 = arg(args, "--key-alpha").map_or(0, |s| s.parse().expect("key-alpha"));
    let def_va: u32 = arg(args, "--val-alpha").map_or(0, |s| s.parse().expect("val-alpha"));
    install_hooks();
    let rd = BufReader::new(std::fs::File::open(&inp).expect("open input"));
    let mut wr = BufWriter::new(std::fs::File::create(&out).expect("create output"));
    let mut nbeh = 0u64;
    let mut nsteps = 0u64;
    // Watchdog: an operation that burns 90 s of CPU time (they take milliseconds; CPU time, so
    // machine load does not matter) has sent the tree spinning. The process reports which
    // step of which behaviour and exits with status 4; the driver turns that into a verdict.
    static TICK: std::sync::atomic::AtomicU64 = std::sync::atomic::AtomicU64::new(0);
    static CUR_BEH: std::sync::atomic::AtomicU64 = std::sync::atomic::AtomicU64::new(0);
    static CUR_STEP: std::sync::atomic::AtomicU64 = std::sync::atomic::AtomicU64::new(0);
    fn cpu_secs() -> f64 {
        let mut ts = libc::timespec { tv_sec: 0, tv_nsec: 0 };
        // SAFETY: plain clock_gettime on a local timespec
        unsafe {
            libc::clock_gettime(libc::CLOCK_PROCESS_CPUTIME_ID, &mut ts);
        }
        ts.tv_sec as f64 + ts.tv_nsec as f64 / 1e9
    }
    std::thread::spawn(|| {
        use std::sync::atomic::Ordering::Relaxed;
        let mut last = TICK.load(Relaxed);
        let mut since = cpu_secs();
        loop {
            std::thread::sleep(std::time::Duration::from_millis(500));
            let t = TICK.load(Relaxed);
            let now = cpu_secs();
            if t != last {
                last = t;
                since = now;
            } else if now - since > 90.0 {
                eprintln!("HANG beh={} step={}", CUR_BEH.load(Relaxed), CUR_STEP.load(Relaxed));
                std::process::exit(4);
            }
        }
    });
    let share_pairs = args.iter().any(|a| a == "--share-pairs");
    // one write() per step on the trace file: the step boundaries of an strace recording
    let flush_steps = args.iter().any(|a| a == "--flush-steps");
    let mut lines: Vec<(usize, Value)> = vec![];
    for (ln, line) in rd.lines().enumerate() {
        let line = line.expect("read");
        if line.trim().is_empty() {
            continue;
        }
        // (reading the input is work too: keep the watchdog quiet)
        if ln % 256 == 0 {
            TICK.fetch_add(1, std::sync::atomic::Ordering::Relaxed);
        }
        match serde_json::from_str::<Value>(&line) {
            Ok(v) => lines.push((ln, v)),
            Err(e) => {
                eprintln!("bad behaviour line {ln}: {e}");
                return 2;
            }
        }
    }
    let mk = |ln: usize, v: &Value, share: Option<model::Shared>| -> Result<(Session, Vec<Value>, Value, PathBuf), String> {
        let (ops, meta) = if v.is_array() {
            (v.as_array().cloned().unwrap_or_default(), json!({}))
        } else {
            (v["ops"].as_array().cloned().unwrap_or_default(), v.clone())
        };
        let phys_idx = meta["phys"].as_u64().map_or_else(
            || if phys_mod > 0 { (ln as u32) % phys_mod } else { def_phys },
            |x| x as u32,
        );
        let mut phys = Phys::from_index(phys_idx);
        if let Some(bs) = meta["block_size"].as_u64() {
            phys.block_size = bs as u32;
        }
        let conc = Concretise {
            key_alpha: meta["key_alpha"].as_u64().map_or(def_ka, |x| x as u32),
            val_alpha: meta["val_alpha"].as_u64().map_or(def_va, |x| x as u32),
        };
        let blob = if meta.get("blob").is_some() { blob_from(&meta["blob"]) } else { blob_from(&def_blob) };
        let dir = PathBuf::from(&scratch).join(format!("b{ln}"));
        let rules = filter::parse_rules(&meta["filter"]);
        let sess = Session::new(dir.clone(), conc.clone(), phys.clone(), blob.clone(), nkeys, rules, share)?;
        let reset = json!({"op": {"op": "reset", "beh": meta.get("id").cloned().unwrap_or(json!(ln)),
            "phys": phys.describe(), "key_alpha": conc.key_alpha, "val_alpha": conc.val_alpha,
            "blob": blob.is_some(), "filter": meta.get("filter").cloned().unwrap_or(json!([])),
            "shared": share_pairs,
            "bcfg": blob.as_ref().map_or(json!({"thr": 0, "target": 0, "stale": 0, "cutoff": 0}), |b| json!({
                "thr": b.threshold, "target": b.file_target.min(1_000_000_000),
                "stale": (f64::from(b.staleness) * 1_000_000.0).round() as u64,
                "cutoff": (f64::from(b.age_cutoff) * 1_000_000.0).round() as u64})),
            "fault_line": meta.get("fault_line").cloned().unwrap_or(json!(0)),
            "big": blob.as_ref().map_or(vec![], |b| (1..=6000i64).filter(|v| conc.val_len(*v) >= b.threshold as usize).collect::<Vec<_>>())},
            "ret": "ok", "rk": "ok", "ro": false, "info": {}, "st": sess.project(), "obs": sess.observe()});
        Ok((sess, ops, reset, dir))
    };
    // one step of a behaviour; returns (record, stop)
    let step = |sess: &mut Session, op: &Value| -> (Value, bool) {
        let op = &sess.concretise_op(op);
        let (ret, info) = sess.exec(op);
        let skip = ret.starts_with("skip:");
        let mut dead = sess.tree.is_none();
        let readonly = op["op"].as_str() == Some("scan");
        // (TLC's JSON reader rejects null: an unusable tree is recorded as empty objects; the
        // line carries the failed / panicked call and ends the behaviour)
        let (st, obs) = if dead {
            (json!({}), json!({}))
        } else if readonly {
            (json!({}), json!({}))
        } else {
            // a panic inside the tree may leave its locks poisoned: the tree is then unusable
            match std::panic::catch_unwind(std::panic::AssertUnwindSafe(|| {
                (sess.project(), sess.observe())
            })) {
                Ok(x) => x,
                Err(_) => {
                    dead = true;
                    (json!({}), json!({}))
                }
            }
        };
        let rk = ret.split(':').next().unwrap_or("").to_string();
        (json!({"op": op, "ret": ret, "rk": rk, "ro": readonly, "info": info, "st": st, "obs": obs}), skip || dead)
    };
    let mut i = 0;
    while i < lines.len() {
        let group: Vec<&(usize, Value)> = if share_pairs && i + 1 < lines.len() {
            vec![&lines[i], &lines[i + 1]]
        } else {
            vec![&lines[i]]
        };
        i += group.len();
        let mut sessions = vec![];
        let mut share: Option<model::Shared> = None;
        let lns: Vec<usize> = group.iter().map(|(ln, _)| *ln).collect();
        for (ln, v) in &group {
            CUR_BEH.store(*ln as u64, std::sync::atomic::Ordering::Relaxed);
            CUR_STEP.store(0, std::sync::atomic::Ordering::Relaxed);
            TICK.fetch_add(1, std::sync::atomic::Ordering::Relaxed);
            match mk(*ln, v, share.clone()) {
                Ok((sess, ops, reset, dir)) => {
                    if share_pairs {
                        share = Some(sess.shared.clone());
                    }
                    if flush_steps {
                        // the line, then a one-byte write of the newline: the step marker
                        write!(wr, "{reset}").expect("write");
                        wr.flush().expect("flush");
                        wr.write_all(b"\n").expect("write");
                        wr.flush().expect("flush");
                    }
                    sessions.push((sess, ops, vec![reset], dir, false));
                }
                Err(e) => {
                    eprintln!("cannot create tree: {e}");
                    return 2;
                }
            }
        }
        // interleave the behaviours of the group step by step (they share cache / fd table)
        let maxlen = sessions.iter().map(|s| s.1.len()).max().unwrap_or(0);
        for j in 0..maxlen {
            for (si, s) in sessions.iter_mut().enumerate() {
                if s.4 || j >= s.1.len() {
                    continue;
                }
                CUR_BEH.store(lns[si] as u64, std::sync::atomic::Ordering::Relaxed);
                CUR_STEP.store(j as u64 + 1, std::sync::atomic::Ordering::Relaxed);
                TICK.fetch_add(1, std::sync::atomic::Ordering::Relaxed);
                let op = s.1[j].clone();
                let (rec, stop) = step(&mut s.0, &op);
                if flush_steps {
                    write!(wr, "{rec}").expect("write");
                    wr.flush().expect("flush");
                    wr.write_all(b"\n").expect("write");
                    wr.flush().expect("flush");
                }
                s.2.push(rec);
                nsteps += 1;
                if stop {
                    s.4 = true;
                }
            }
        }
        for (sess, _, recs, dir, _) in sessions {
            for r in recs {
                if flush_steps {
                    continue;
                }
                writeln!(wr, "{r}").expect("write");
            }
            nbeh += 1;
            drop(sess);
            let _ = std::fs::remove_dir_all(&dir);
        }
    }
    wr.flush().expect("flush");
    let _ = std::fs::remove_dir_all(&scratch);
    println!("{}", json!({"behaviours": nbeh, "steps": nsteps}));
    0
}

fn main() {
    let args: Vec<String> = std::env::args().collect();
    let code = match args.get(1).map(String::as_str) {
        Some("replay") => replay(&args[2..]),
        Some("tablecase") => tablecase::run(&args[2..]),
        Some("corrupt") => corrupt::run(&args[2..]),
        Some("conc") => conc::run(&args[2..]),
        Some("free") => free::run(&args[2..]),
        Some("crashopen") => crashopen::run(&args[2..]),
        _ => {
            eprintln!("usage: harness replay --in F --out F [...]");
            2
        }
    };
    std::process::exit(code);
}
