//! C12: writes a given stream of versioned entries into one table with given writer
//! settings and probes it through every read path. Only plumbing: results are logged
//! and judged by TLC (spec/TraceTable.tla).
//!
//! input line: {"id":.., "stream":[[k,s,t,v],...] (strictly ordered: k asc, s desc),
//!   "w": {"block_size":n,"restart":n,"hash_ratio":f,"pidx":b,"pflt":b,"lz4":b,"bloom":0|1|2,
//!         "pin_filter":b,"pin_index":b,"cache":n}, "key_alpha":n,"val_alpha":n,"g":n,
//!   "gets":[[k2,S],...] (k2 = doubled key), "ranges":[{"lo":[kd,x],"hi":[kd,x],"pat":[..]}]}

use crate::model::Concretise;
use lsm_tree::table::filter::standard_bloom::Builder as BloomBuilder;
use lsm_tree::{Cache, CompressionType, InternalValue, SeqNo, Table, ValueType};
use serde_json::{json, Value};
use std::io::{BufRead, BufReader, BufWriter, Write};
use std::ops::Bound;
use std::panic::{catch_unwind, AssertUnwindSafe};
use std::path::PathBuf;
use std::sync::Arc;

fn vt(t: &str) -> ValueType {
    match t {
        "T" => ValueType::Tombstone,
        "W" => ValueType::WeakTombstone,
        "I" => ValueType::Indirection,
        _ => ValueType::Value,
    }
}

fn tname(t: ValueType) -> &'static str {
    match t {
        ValueType::Value => "V",
        ValueType::Tombstone => "T",
        ValueType::WeakTombstone => "W",
        ValueType::Indirection => "I",
    }
}

fn bound_key(conc: &Concretise, x: i64) -> Vec<u8> {
    if x % 2 == 0 {
        conc.key(x / 2)
    } else if x < 2 {
        vec![0u8]
    } else {
        let mut k = conc.key((x - 1) / 2);
        k.push(1);
        k
    }
}

pub fn run(args: &[String]) -> i32 {
    let inp = crate::arg(args, "--in").expect("--in");
    let out = crate::arg(args, "--out").expect("--out");
    let scratch = crate::arg(args, "--scratch").unwrap_or_else(|| format!("/dev/shm/verif-{}", std::process::id()));
    std::fs::create_dir_all(&scratch).expect("scratch");
    let rd = BufReader::new(std::fs::File::open(&inp).expect("open input"));
    let mut wr = BufWriter::new(std::fs::File::create(&out).expect("create output"));
    let mut n = 0u64;
    for (ln, line) in rd.lines().enumerate() {
        let line = line.expect("read");
        if line.trim().is_empty() {
            continue;
        }
        let c: Value = serde_json::from_str(&line).expect("case json");
        let rec = one_case(&c, &PathBuf::from(&scratch).join(format!("t{ln}")), ln as u64);
        writeln!(wr, "{rec}").expect("write");
        n += 1;
    }
    wr.flush().expect("flush");
    let _ = std::fs::remove_dir_all(&scratch);
    println!("{}", json!({"cases": n}));
    0
}

fn entry(conc: &Concretise, nkeys: i64, e: &InternalValue, g: u64) -> Value {
    let v = if e.key.value_type == ValueType::Value || e.key.value_type == ValueType::Indirection {
        conc.val_back(&e.value)
    } else {
        0
    };
    json!([conc.key_back(&e.key.user_key, nkeys), e.key.seqno.wrapping_sub(g), tname(e.key.value_type), v])
}

fn one_case(c: &Value, path: &PathBuf, id: u64) -> Value {
    let conc = Concretise {
        key_alpha: c["key_alpha"].as_u64().unwrap_or(0) as u32,
        val_alpha: c["val_alpha"].as_u64().unwrap_or(0) as u32,
    };
    let w = &c["w"];
    let g = c["g"].as_u64().unwrap_or(0);
    let stream = c["stream"].as_array().cloned().unwrap_or_default();
    let nkeys = stream.iter().filter_map(|e| e[0].as_i64()).max().unwrap_or(1) + 1;
    let _ = std::fs::remove_file(path);
    let mut notes: Vec<String> = vec![];
    let r = catch_unwind(AssertUnwindSafe(|| -> Result<Value, String> {
        let comp = if w["lz4"].as_bool().unwrap_or(false) { CompressionType::Lz4 } else { CompressionType::None };
        let bloom = match w["bloom"].as_u64().unwrap_or(1) {
            0 => lsm_tree::config::BloomConstructionPolicy::BitsPerKey(0.0),
            2 => lsm_tree::config::BloomConstructionPolicy::FalsePositiveRate(0.01),
            _ => lsm_tree::config::BloomConstructionPolicy::BitsPerKey(10.0),
        };
        let mut wtr = lsm_tree::table::Writer::new(path.clone(), id, 0)
            .map_err(|e| format!("err:{e:?}"))?
            .use_data_block_size(w["block_size"].as_u64().unwrap_or(4096) as u32)
            .use_data_block_restart_interval(w["restart"].as_u64().unwrap_or(16) as u8)
            .use_data_block_hash_ratio(w["hash_ratio"].as_f64().unwrap_or(0.0) as f32)
            .use_data_block_compression(comp)
            .use_index_block_compression(comp)
            .use_bloom_policy(bloom);
        if w["pidx"].as_bool().unwrap_or(false) {
            wtr = wtr.use_partitioned_index();
        }
        if w["pflt"].as_bool().unwrap_or(false) {
            wtr = wtr.use_partitioned_filter();
        }
        for e in &stream {
            let k = conc.key(e[0].as_i64().unwrap_or(1));
            let t = vt(e[2].as_str().unwrap_or("V"));
            let v = if t == ValueType::Value || t == ValueType::Indirection {
                conc.val(e[3].as_i64().unwrap_or(1))
            } else {
                vec![]
            };
            wtr.write(InternalValue::from_components(k, v, e[1].as_u64().unwrap_or(0), t))
                .map_err(|e| format!("err:{e:?}"))?;
        }
        let Some((_, checksum)) = wtr.finish().map_err(|e| format!("err:{e:?}"))? else {
            return Ok(json!({"empty": true}));
        };
        let cache = Arc::new(Cache::with_capacity_bytes(w["cache"].as_u64().unwrap_or(1 << 20)));
        let table = Table::recover(
            path.clone(),
            checksum,
            g,
            0,
            cache,
            None,
            w["pin_filter"].as_bool().unwrap_or(true),
            w["pin_index"].as_bool().unwrap_or(true),
        )
        .map_err(|e| format!("err:{e:?}"))?;

        // full scans
        let mut iter_f = vec![];
        for it in table.iter() {
            iter_f.push(entry(&conc, nkeys, &it.map_err(|e| format!("err:{e:?}"))?, g));
        }
        let mut iter_b = vec![];
        for it in table.iter().rev() {
            iter_b.push(entry(&conc, nkeys, &it.map_err(|e| format!("err:{e:?}"))?, g));
        }
        let mut scan = vec![];
        for it in table.scan().map_err(|e| format!("err:{e:?}"))? {
            scan.push(entry(&conc, nkeys, &it.map_err(|e| format!("err:{e:?}"))?, g));
        }
        // point reads
        let mut gets = vec![];
        for p in c["gets"].as_array().cloned().unwrap_or_default() {
            let key = bound_key(&conc, p[0].as_i64().unwrap_or(2));
            let s = p[1].as_u64().unwrap_or(0);
            let sq = if s >= 1_000_000 { SeqNo::MAX } else { s };
            let r = table
                .get(&key, sq, BloomBuilder::get_hash(&key))
                .map_err(|e| format!("err:{e:?}"))?;
            gets.push(json!([p[0], p[1], r.map_or(json!([]), |e| json!([entry(&conc, nkeys, &e, g)]))]));
        }
        // ranged scans, both ends
        let mut ranges = vec![];
        for rg in c["ranges"].as_array().cloned().unwrap_or_default() {
            let mk = |b: &Value| -> Bound<lsm_tree::UserKey> {
                match b[0].as_str() {
                    Some("I") => Bound::Included(bound_key(&conc, b[1].as_i64().unwrap_or(2)).into()),
                    Some("E") => Bound::Excluded(bound_key(&conc, b[1].as_i64().unwrap_or(2)).into()),
                    _ => Bound::Unbounded,
                }
            };
            let pat: Vec<String> = rg["pat"].as_array().map(|a| a.iter().filter_map(|x| x.as_str().map(str::to_string)).collect()).unwrap_or_default();
            let mut it = table.range((mk(&rg["lo"]), mk(&rg["hi"])));
            let mut res = vec![];
            let mut i = 0usize;
            let mut last_front = true;
            loop {
                let front = pat.is_empty() || pat[i % pat.len()] != "B";
                last_front = front;
                let x = if front { it.next() } else { it.next_back() };
                i += 1;
                match x {
                    None => break,
                    Some(x) => res.push(entry(&conc, nkeys, &x.map_err(|e| format!("err:{e:?}"))?, g)),
                }
                if res.len() > 100_000 {
                    return Err("err:range does not terminate".into());
                }
            }
            let other = if last_front { it.next_back() } else { it.next() };
            ranges.push(json!({"lo": rg["lo"], "hi": rg["hi"], "pat": rg["pat"], "res": res, "tail_ok": other.is_none()}));
        }
        let (lo, hi) = lsm_tree::verif::table_seqnos(&table);
        let kr = &table.metadata.key_range;
        Ok(json!({
            "empty": false, "iter_f": iter_f, "iter_b": iter_b, "scan": scan, "gets": gets, "ranges": ranges,
            "meta": {"min": conc.key_back(kr.min(), nkeys), "max": conc.key_back(kr.max(), nkeys),
                     "lo": lo, "hi": hi, "n": table.metadata.item_count,
                     "tomb": table.metadata.tombstone_count, "wtomb": table.metadata.weak_tombstone_count,
                     "blocks": table.metadata.data_block_count, "hiseq": table.get_highest_seqno()},
        }))
    }));
    let _ = std::fs::remove_file(path);
    let (rk, res) = match r {
        Ok(Ok(v)) => ("ok".to_string(), v),
        Ok(Err(e)) => {
            notes.push(e.clone());
            ("err".to_string(), json!({}))
        }
        Err(e) => {
            let m = if let Some(s) = e.downcast_ref::<&str>() { (*s).to_string() } else if let Some(s) = e.downcast_ref::<String>() { s.clone() } else { "panic".into() };
            notes.push(format!("panic:{m}"));
            ("panic".to_string(), json!({}))
        }
    };
    json!({"id": c["id"], "stream": c["stream"], "g": g, "w": c["w"], "key_alpha": conc.key_alpha,
           "val_alpha": conc.val_alpha, "rk": rk, "notes": notes, "res": res})
}
