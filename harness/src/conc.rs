//! C06: forced schedules. The model (spec/LsmConc.tla) gives a sequence of
//! (process, step); one OS thread per process executes its operations and parks at the
//! yield points of the verif hooks; the scheduler releases exactly one thread at a time in
//! the order the model dictates and, after every step, records the reads and the state.
//! A thread that does not reach its next yield point in time is reported as stuck (tool
//! error), never as a violation.

use crate::exec::Session;
use crate::model::{Concretise, Phys};
use lsm_tree::AbstractTree;
use serde_json::{json, Value};
use std::cell::RefCell;
use std::io::{BufRead, BufReader, BufWriter, Write};
use std::sync::mpsc::{channel, Receiver, Sender};
use std::sync::{Arc, Mutex};
use std::time::Duration;

thread_local! {
    static WHO: RefCell<Option<(String, Sender<(String, String)>, Arc<Mutex<Receiver<()>>>)>> = const { RefCell::new(None) };
}

/// the yield point inside Memtable::insert parks the writer only while a probe is armed
static PROBE: std::sync::atomic::AtomicBool = std::sync::atomic::AtomicBool::new(false);
/// seqno taken by the writer thread for its last write
static LAST_W_SEQ: std::sync::atomic::AtomicU64 = std::sync::atomic::AtomicU64::new(0);
/// the writer has allocated a seqno (step "alloc") that its next write uses
static HAVE_SEQ: std::sync::atomic::AtomicBool = std::sync::atomic::AtomicBool::new(false);

fn yield_handler(point: &'static str) {
    if point == "memtable:insert" && !PROBE.swap(false, std::sync::atomic::Ordering::AcqRel) {
        return;
    }
    WHO.with(|w| {
        if let Some((name, tx, rx)) = &*w.borrow() {
            let _ = tx.send((name.clone(), point.to_string()));
            // park until the scheduler lets this thread continue
            let _ = rx.lock().expect("lock").recv();
        }
    });
}

pub fn run(args: &[String]) -> i32 {
    let inp = crate::arg(args, "--in").expect("--in");
    let out = crate::arg(args, "--out").expect("--out");
    let nkeys: i64 = crate::arg(args, "--nkeys").map_or(2, |s| s.parse().expect("nkeys"));
    let scratch = crate::arg(args, "--scratch").unwrap_or_else(|| format!("/dev/shm/verif-{}", std::process::id()));
    crate::install_hooks();
    lsm_tree::verif::set_yield_handler(Some(Arc::new(yield_handler)));
    let rd = BufReader::new(std::fs::File::open(&inp).expect("open input"));
    let mut wr = BufWriter::new(std::fs::File::create(&out).expect("create output"));
    let mut nsched = 0u64;
    let mut stuck = 0u64;
    for (ln, line) in rd.lines().enumerate() {
        let line = line.expect("read");
        if line.trim().is_empty() {
            continue;
        }
        let v: Value = serde_json::from_str(&line).expect("json");
        let sched = v["sched"].as_array().cloned().unwrap_or_default();
        HAVE_SEQ.store(false, std::sync::atomic::Ordering::Release);
        LAST_W_SEQ.store(0, std::sync::atomic::Ordering::Release);
        PROBE.store(false, std::sync::atomic::Ordering::Release);
        let phys = Phys::from_index(v["phys"].as_u64().unwrap_or(0) as u32);
        let conc = Concretise { key_alpha: 0, val_alpha: 0 };
        let dir = std::path::PathBuf::from(&scratch).join(format!("s{ln}"));
        let sess = match Session::new(dir.clone(), conc, phys.clone(), None, nkeys, vec![], None) {
            Ok(s) => Arc::new(Mutex::new(s)),
            Err(e) => {
                eprintln!("cannot create tree: {e}");
                return 2;
            }
        };
        {
            let s = sess.lock().expect("lock");
            let reset = json!({"op": {"op": "reset", "beh": v.get("id").cloned().unwrap_or(json!(ln)),
                "phys": phys.describe(), "key_alpha": 0, "val_alpha": 0, "blob": false, "filter": [],
                "shared": false, "fault_line": 0, "big": [], "conc": true,
                "bcfg": {"thr": 0, "target": 0, "stale": 0, "cutoff": 0}},
                "ret": "ok", "rk": "ok", "ro": false, "info": {}, "st": s.project(), "obs": s.observe()});
            writeln!(wr, "{reset}").expect("write");
        }
        let tree = sess.lock().expect("lock").tree.clone().expect("tree");
        let seq = sess.lock().expect("lock").seq.clone();
        let vis = sess.lock().expect("lock").vis.clone();
        let (ev_tx, ev_rx) = channel::<(String, String)>();
        // one worker per process: receives commands, reports "done:<ret>" or yield points
        let mut cmd: std::collections::HashMap<String, Sender<Value>> = std::collections::HashMap::new();
        let mut cont: std::collections::HashMap<String, Sender<()>> = std::collections::HashMap::new();
        let mut handles = vec![];
        for p in ["w", "f", "c", "k", "r", "d", "c2"] {
            let (ctx, crx) = channel::<Value>();
            let (gtx, grx) = channel::<()>();
            cmd.insert(p.to_string(), ctx);
            cont.insert(p.to_string(), gtx);
            let tree = tree.clone();
            let seq = seq.clone();
            let vis = vis.clone();
            let ev = ev_tx.clone();
            let name = p.to_string();
            let conc = sess.lock().expect("lock").conc.clone();
            let grx = Arc::new(Mutex::new(grx));
            handles.push(std::thread::spawn(move || {
                WHO.with(|w| *w.borrow_mut() = Some((name.clone(), ev.clone(), grx)));
                while let Ok(c) = crx.recv() {
                    if c["op"] == "quit" {
                        break;
                    }
                    let r = std::panic::catch_unwind(std::panic::AssertUnwindSafe(|| -> Result<(), String> {
                        match c["op"].as_str().unwrap_or("") {
                            "alloc" => {
                                // the caller's `seqno.next()`, a step of its own
                                let s = seq.next();
                                LAST_W_SEQ.store(s, std::sync::atomic::Ordering::Release);
                                HAVE_SEQ.store(true, std::sync::atomic::Ordering::Release);
                                Ok(())
                            }
                            "write" => {
                                let s = if HAVE_SEQ.swap(false, std::sync::atomic::Ordering::AcqRel) {
                                    LAST_W_SEQ.load(std::sync::atomic::Ordering::Acquire)
                                } else {
                                    seq.next()
                                };
                                LAST_W_SEQ.store(s, std::sync::atomic::Ordering::Release);
                                let k = conc.key(c["k"].as_i64().unwrap_or(1));
                                if c["t"] == "V" {
                                    tree.insert(k, conc.val(c["v"].as_i64().unwrap_or(1)), s);
                                } else {
                                    tree.remove(k, s);
                                }
                                vis.fetch_max(s + 1);
                                Ok(())
                            }
                            "rotate" => {
                                tree.rotate_memtable();
                                Ok(())
                            }
                            "flush" => {
                                let lock = tree.get_flush_lock();
                                tree.flush(&lock, 0).map(|_| ()).map_err(|e| format!("err:{e:?}"))
                            }
                            "major" => tree.major_compact(u64::MAX, 0).map_err(|e| format!("err:{e:?}")),
                            "scripted" => {
                                let ids: Vec<u64> = c["ids"].as_array().map_or(vec![], |a| a.iter().filter_map(Value::as_u64).collect());
                                let dest = c["dest"].as_u64().unwrap_or(6) as u8;
                                let choice = lsm_tree::verif::ScriptedChoice::Merge {
                                    table_ids: ids,
                                    dest_level: dest,
                                    canonical_level: dest,
                                    target_size: u64::MAX,
                                };
                                tree.compact(Arc::new(lsm_tree::verif::Scripted(choice)), 0)
                                    .map_err(|e| format!("err:{e:?}"))
                            }
                            "clear" => tree.clear().map_err(|e| format!("err:{e:?}")),
                            "droprange" => tree.drop_range::<&[u8], _>(..).map_err(|e| format!("err:{e:?}")),
                            x => Err(format!("skip:unknown {x}")),
                        }
                    }));
                    let ret = match r {
                        Ok(Ok(())) => "ok".to_string(),
                        Ok(Err(e)) => e,
                        Err(_) => "panic".to_string(),
                    };
                    let _ = ev.send((name.clone(), format!("done:{ret}")));
                }
            }));
        }
        // which processes are parked inside an operation
        let mut inside: std::collections::HashMap<String, bool> = std::collections::HashMap::new();
        let mut aborted = false;
        for stp in &sched {
            let p = stp["p"].as_str().unwrap_or("").to_string();
            let step = stp["step"].as_str().unwrap_or("").to_string();
            let starts = matches!(
                (p.as_str(), step.as_str()),
                ("w", "write") | ("w", "alloc") | ("f", "rotate") | ("r", "rotate") | ("f", "collect") | ("c", "choose") | ("c2", "choose") | ("k", "clear") | ("d", "droprange")
            );
            let mut absent = false;
            if starts && *inside.get(&p).unwrap_or(&false) {
                // the model starts a new operation of a process whose previous one is, in the
                // real tree, still parked (the code took steps the model does not have): let it
                // finish first; the recorded state shows what that did
                let mut guard = 0;
                while *inside.get(&p).unwrap_or(&false) && guard < 8 {
                    guard += 1;
                    let _ = cont[&p].send(());
                    match ev_rx.recv_timeout(Duration::from_secs(20)) {
                        Ok((who, what)) if who == p && what.starts_with("done:") => {
                            inside.insert(p.clone(), false);
                        }
                        Ok(_) => {}
                        Err(_) => break,
                    }
                }
                let sx = sess.lock().expect("lock");
                let rec = json!({"op": {"op": "cstep", "p": p, "step": "extra", "arg": 0, "at": "unexpected"},
                    "ret": "ok", "rk": "ok", "ro": false, "info": {"s0": 0}, "st": sx.project(), "obs": sx.observe()});
                writeln!(wr, "{rec}").expect("write");
            }
            if p == "w" && step == "write" && stp["probe"].as_bool().unwrap_or(false) {
                // Atomicity probe of the writer's critical section (append_entry holds the version
                // read lock across the memtable insert): park the writer inside the insert and
                // let another thread seal the memtable and flush it.  If the lock is held the
                // rotation blocks until the writer is released (the expected outcome); if it is
                // not, rotation + flush complete first and the recorded lines show what happens
                // to the write.
                let mut lines: Vec<(String, String, String, String)> = vec![];
                PROBE.store(true, std::sync::atomic::Ordering::Release);
                let _ = cmd["w"].send(json!({"op": "write", "k": stp["arg"]["k"], "t": stp["arg"]["t"], "v": stp["arg"]["v"]}));
                let parked = matches!(ev_rx.recv_timeout(Duration::from_secs(20)),
                                      Ok((who, what)) if who == "w" && what == "memtable:insert");
                if !parked {
                    PROBE.store(false, std::sync::atomic::Ordering::Release);
                    lines.push(("w".into(), "write".into(), "skip:probe did not park".into(), String::new()));
                } else {
                    let _ = cmd["r"].send(json!({"op": "rotate"}));
                    let rot_done = matches!(ev_rx.recv_timeout(Duration::from_millis(300)),
                                            Ok((who, what)) if who == "r" && what.starts_with("done:"));
                    if rot_done {
                        // not blocked: seal + flush the memtable the writer is about to insert into
                        lines.push(("r".into(), "rotate".into(), "ok".into(), "during-write".into()));
                        let _ = cmd["f"].send(json!({"op": "flush"}));
                        loop {
                            match ev_rx.recv_timeout(Duration::from_secs(20)) {
                                Ok((who, what)) if who == "f" && what.starts_with("done:") => {
                                    lines.push(("f".into(), "register".into(), what[5..].to_string(), "during-write".into()));
                                    break;
                                }
                                Ok((who, _)) if who == "f" => {
                                    let _ = cont["f"].send(());
                                }
                                Ok(_) => {}
                                Err(_) => {
                                    lines.push(("f".into(), "register".into(), "skip:stuck".into(), String::new()));
                                    break;
                                }
                            }
                        }
                    }
                    let _ = cont["w"].send(());
                    let mut wdone = false;
                    let mut rdone = rot_done;
                    while !(wdone && rdone) {
                        match ev_rx.recv_timeout(Duration::from_secs(20)) {
                            Ok((who, what)) if who == "w" && what.starts_with("done:") => {
                                wdone = true;
                                lines.push(("w".into(), "write".into(), what[5..].to_string(), "done".into()));
                            }
                            Ok((who, what)) if who == "r" && what.starts_with("done:") => {
                                rdone = true;
                                lines.push(("r".into(), "rotate".into(), what[5..].to_string(), "done".into()));
                            }
                            Ok(_) => {}
                            Err(_) => {
                                lines.push(("w".into(), "write".into(), "skip:stuck".into(), String::new()));
                                break;
                            }
                        }
                    }
                }
                let mut sl = sess.lock().expect("lock");
                sl.extra_reads.push(LAST_W_SEQ.load(std::sync::atomic::Ordering::Acquire) + 1);
                let mut bad = false;
                // every line of the probe carries the state / reads after the whole probe, so the
                // write comes first: from there on the ghost expects it to be readable
                lines.sort_by_key(|l| l.0 != "w");
                for (lp, lstep, ret, at) in lines {
                    let rk = ret.split(':').next().unwrap_or("").to_string();
                                        let rec = json!({"op": {"op": "cstep", "p": lp, "step": lstep, "arg": stp["arg"], "at": at},
                        "ret": ret, "rk": rk, "ro": false,
                        "info": {"s0": 0, "s": LAST_W_SEQ.load(std::sync::atomic::Ordering::Acquire)},
                        "st": sl.project(), "obs": sl.observe()});
                    writeln!(wr, "{rec}").expect("write");
                    if rk == "skip" {
                        bad = true;
                    }
                }
                drop(sl);
                if bad {
                    stuck += 1;
                    aborted = true;
                    break;
                }
                continue;
            }
            if starts {
                let c = match step.as_str() {
                    "write" => json!({"op": "write", "k": stp["arg"]["k"], "t": stp["arg"]["t"], "v": stp["arg"]["v"]}),
                    "alloc" => json!({"op": "alloc"}),
                    "rotate" => json!({"op": "rotate"}),
                    "collect" => json!({"op": "flush"}),
                    "choose" if p == "c2" || v["cscripted"].as_bool().unwrap_or(false) => {
                        // an ordinary compaction with a scripted choice computed by the model's
                        // rule from the state at this instant: c2 = every L0 table into L1,
                        // c = every table that is not hidden into the last level
                        let st = sess.lock().expect("lock").project();
                        let hidden: Vec<u64> = st["hidden"].as_array().map_or(vec![], |a| a.iter().filter_map(Value::as_u64).collect());
                        let lv = st["hist"].as_array().and_then(|h| h.last()).map_or(json!([]), |x| x["lv"].clone());
                        let mut ids: Vec<u64> = vec![];
                        for (li, level) in lv.as_array().cloned().unwrap_or_default().iter().enumerate() {
                            if p == "c2" && li != 0 {
                                continue;
                            }
                            for run in level.as_array().cloned().unwrap_or_default() {
                                for t in run.as_array().cloned().unwrap_or_default() {
                                    if let Some(id) = t.as_u64() {
                                        // c leaves hidden tables alone; c2 asks for every L0
                                        // table and relies on the worker to decline
                                        if p == "c2" || !hidden.contains(&id) {
                                            ids.push(id);
                                        }
                                    }
                                }
                            }
                        }
                        json!({"op": "scripted", "ids": ids, "dest": if p == "c2" { 1 } else { 6 }})
                    }
                    "choose" => json!({"op": "major"}),
                    "droprange" => json!({"op": "droprange"}),
                    _ => json!({"op": "clear"}),
                };
                let _ = cmd[&p].send(c);
            } else if *inside.get(&p).unwrap_or(&false) {
                let _ = cont[&p].send(());
            } else {
                // the model takes a step the real operation does not have any more (it finished
                // early, e.g. a flush that found nothing sealed although the model has a sealed
                // memtable): no thread to wait for; the recorded state shows what that means
                absent = true;
            }
            // wait for this process to park or finish
            let (ret, at) = if absent {
                ("ok".to_string(), "absent".to_string())
            } else { match ev_rx.recv_timeout(Duration::from_secs(20)) {
                Ok((who, what)) if who == p => {
                    if let Some(r) = what.strip_prefix("done:") {
                        inside.insert(p.clone(), false);
                        (r.to_string(), "done".to_string())
                    } else {
                        inside.insert(p.clone(), true);
                        ("ok".to_string(), what)
                    }
                }
                Ok((who, what)) => (format!("skip:unexpected event from {who}: {what}"), String::new()),
                Err(_) => ("skip:stuck".to_string(), String::new()),
            } };
            let mut s = sess.lock().expect("lock");
            let ws = LAST_W_SEQ.load(std::sync::atomic::Ordering::Acquire);
            if p == "w" && step == "write" && at == "done" {
                // what the writer has published: reads at this snapshot must see the write
                s.extra_reads.push(ws + 1);
            }
            let rk = ret.split(':').next().unwrap_or("").to_string();
            let rec = json!({"op": {"op": "cstep", "p": p, "step": step, "arg": stp["arg"], "at": at},
                "ret": ret, "rk": rk, "ro": false, "info": {"s0": 0, "s": ws}, "st": s.project(), "obs": s.observe()});
            writeln!(wr, "{rec}").expect("write");
            if rk == "skip" {
                stuck += 1;
                aborted = true;
                break;
            }
        }
        // let every parked operation run to completion
        if !aborted {
            for (p, ins) in inside.clone() {
                let mut ins = ins;
                while ins {
                    let _ = cont[&p].send(());
                    match ev_rx.recv_timeout(Duration::from_secs(20)) {
                        Ok((who, what)) if who == p && what.starts_with("done:") => ins = false,
                        Ok(_) => {}
                        Err(_) => {
                            aborted = true;
                            break;
                        }
                    }
                }
            }
        }
        if aborted {
            // threads may be parked for ever: leak them, the process exits at the end
            for (_, c) in &cont {
                let _ = c.send(());
            }
        } else {
            for (_, c) in &cmd {
                let _ = c.send(json!({"op": "quit"}));
            }
            for h in handles {
                let _ = h.join();
            }
            // quiescence: everything finished; then flush what is left and reopen
            let mut s = sess.lock().expect("lock");
            let rec = json!({"op": {"op": "cstep", "p": "main", "step": "rest", "arg": 0, "at": "done"},
                "ret": "ok", "rk": "ok", "ro": false, "info": {"s0": 0}, "st": s.project(), "obs": s.observe()});
            writeln!(wr, "{rec}").expect("write");
            drop(tree);
            for op in [json!({"op": "rotate"}), json!({"op": "flush", "w": 0}), json!({"op": "reopen"})] {
                let (ret, info) = s.exec(&op);
                let rk = ret.split(':').next().unwrap_or("").to_string();
                let rec = json!({"op": op, "ret": ret, "rk": rk, "ro": false, "info": info, "st": s.project(), "obs": s.observe()});
                writeln!(wr, "{rec}").expect("write");
            }
        }
        nsched += 1;
        let _ = std::fs::remove_dir_all(&dir);
    }
    wr.flush().expect("flush");
    let _ = std::fs::remove_dir_all(&scratch);
    println!("{}", json!({"schedules": nsched, "stuck": stuck}));
    0
}
