//! Concretisation: model keys / values <-> bytes, and the configuration lattice.
//! No tree semantics lives here.

use lsm_tree::config::{
    BlockSizePolicy, BloomConstructionPolicy, CompressionPolicy, FilterPolicy, FilterPolicyEntry,
    HashRatioPolicy, PinningPolicy, RestartIntervalPolicy,
};
use lsm_tree::{Cache, CompressionType, Config, DescriptorTable, KvSeparationOptions};
use lsm_tree::SequenceNumberCounter;
use std::path::Path;
use std::sync::Arc;

/// How model keys and values become bytes.
#[derive(Clone, Debug)]
pub struct Concretise {
    /// key alphabet: 0 plain, 1 long shared prefix, 2 0xFF-heavy, 3 mixed lengths
    pub key_alpha: u32,
    /// value alphabet: 0 tiny, 1 odd values small / even values big (both sides of a
    /// separation threshold of 64), 2 all big
    pub val_alpha: u32,
}

impl Concretise {
    pub fn key(&self, k: i64) -> Vec<u8> {
        match self.key_alpha {
            1 => {
                let mut v = vec![b'p'; 200];
                v.extend_from_slice(format!("{k:05}").as_bytes());
                v
            }
            2 => {
                // ordered, 0xFF terminated: key i = [i, 0xFF, 0xFF]
                vec![u8::try_from(k).unwrap_or(250), 0xFF, 0xFF]
            }
            3 => {
                // mixed lengths, order preserved: "a", "ab", "abb", "b", ... built from k
                let base = b'a' + u8::try_from((k - 1) / 3).unwrap_or(20);
                let extra = ((k - 1) % 3) as usize;
                let mut v = vec![base];
                v.extend(std::iter::repeat(b'!').take(extra));
                v
            }
            _ => format!("k{k:05}").into_bytes(),
        }
    }

    pub fn key_back(&self, bytes: &[u8], max_key: i64) -> i64 {
        for k in 1..=max_key + 2 {
            if self.key(k) == bytes {
                return k;
            }
        }
        -1
    }

    pub fn val_len(&self, v: i64) -> usize {
        match self.val_alpha {
            1 => {
                if v % 2 == 0 {
                    100 + (v as usize)
                } else {
                    3 + (v as usize % 7)
                }
            }
            2 => 100 + (v as usize),
            // just below / just above a separation threshold of 100_000 bytes: a few hundred
            // inline values fill a flush beyond its 64 MiB table target
            3 => {
                if v % 2 == 0 {
                    100_100 + (v as usize)
                } else {
                    99_000 + (v as usize)
                }
            }
            _ => 3,
        }
    }

    pub fn val(&self, v: i64) -> Vec<u8> {
        let n = self.val_len(v);
        let mut out = format!("v{v}:").into_bytes();
        while out.len() < n {
            out.push(b'a' + (v as u8 % 26));
        }
        out
    }

    /// model value of a byte string; -1 if the bytes are not a value this
    /// concretisation produces (a corrupted or foreign value)
    pub fn val_back(&self, bytes: &[u8]) -> i64 {
        // parse "v<digits>:" prefix
        if bytes.first() != Some(&b'v') {
            return -1;
        }
        let mut n: i64 = 0;
        let mut i = 1;
        let mut seen = false;
        while i < bytes.len() && bytes[i].is_ascii_digit() {
            n = n * 10 + i64::from(bytes[i] - b'0');
            i += 1;
            seen = true;
            if n > 1_000_000 {
                return -1;
            }
        }
        if !seen || i >= bytes.len() || bytes[i] != b':' {
            return -1;
        }
        if self.val(n) == bytes {
            n
        } else {
            -1
        }
    }
}

/// One point of the physical configuration lattice.
#[derive(Clone, Debug)]
pub struct Phys {
    pub id: u32,
    pub block_size: u32,
    pub restart: u8,
    pub hash_ratio: f32,
    pub partition_index: bool,
    pub partition_filter: bool,
    pub pin_index: bool,
    pub pin_filter: bool,
    /// 0 none, 1 bits-per-key 10, 2 fpr 0.01, 3 bits per key + expect_point_read_hits
    pub filter: u8,
    pub lz4: bool,
    /// cache bytes: 0, small, large
    pub cache: u64,
    /// descriptor table capacity: 0 = none
    pub fd: usize,
}

impl Phys {
    pub fn default_small_blocks() -> Self {
        Self {
            id: 0,
            block_size: 1,
            restart: 2,
            hash_ratio: 0.0,
            partition_index: false,
            partition_filter: false,
            pin_index: true,
            pin_filter: true,
            filter: 1,
            lz4: false,
            cache: 1 << 20,
            fd: 16,
        }
    }

    /// A deterministic pseudo-random member of the lattice.
    pub fn from_index(i: u32) -> Self {
        if i == 0 {
            return Self::default_small_blocks();
        }
        let mut x = u64::from(i).wrapping_mul(0x9E37_79B9_7F4A_7C15) ^ 0xD1B5_4A32_D192_ED03;
        let mut pick = |n: u64| -> u64 {
            x ^= x >> 30;
            x = x.wrapping_mul(0xBF58_476D_1CE4_E5B9);
            x ^= x >> 27;
            x = x.wrapping_mul(0x94D0_49BB_1331_11EB);
            x ^= x >> 31;
            x % n
        };
        Self {
            id: i,
            block_size: [1u32, 64, 4096][pick(3) as usize],
            restart: [1u8, 2, 16][pick(3) as usize],
            hash_ratio: [0.0f32, 0.75, 8.0][pick(3) as usize],
            partition_index: pick(2) == 1,
            partition_filter: pick(2) == 1,
            pin_index: pick(2) == 1,
            pin_filter: pick(2) == 1,
            filter: pick(4) as u8,
            lz4: pick(2) == 1,
            cache: [0u64, 4096, 1 << 22][pick(3) as usize],
            fd: [0usize, 1, 256][pick(3) as usize],
        }
    }

    pub fn describe(&self) -> serde_json::Value {
        serde_json::json!({
            "id": self.id, "block_size": self.block_size, "restart": self.restart,
            "hash_ratio": self.hash_ratio, "partition_index": self.partition_index,
            "partition_filter": self.partition_filter, "pin_index": self.pin_index,
            "pin_filter": self.pin_filter, "filter": self.filter, "lz4": self.lz4,
            "cache": self.cache, "fd": self.fd,
        })
    }
}

/// Key-value separation parameters (None = standard tree).
#[derive(Clone, Debug)]
pub struct BlobCfg {
    pub threshold: u32,
    pub file_target: u64,
    pub staleness: f32,
    pub age_cutoff: f32,
    pub lz4: bool,
}

#[derive(Clone)]
pub struct Shared {
    pub cache: Arc<Cache>,
    pub fd: Option<Arc<DescriptorTable>>,
}

impl Shared {
    pub fn new(p: &Phys) -> Self {
        Self {
            cache: Arc::new(Cache::with_capacity_bytes(p.cache)),
            fd: if p.fd == 0 {
                None
            } else {
                Some(Arc::new(DescriptorTable::new(p.fd)))
            },
        }
    }
}

pub fn make_config(
    path: &Path,
    seq: &SequenceNumberCounter,
    vis: &SequenceNumberCounter,
    p: &Phys,
    blob: Option<&BlobCfg>,
    shared: &Shared,
) -> Config {
    let comp = if p.lz4 {
        CompressionType::Lz4
    } else {
        CompressionType::None
    };
    let filter = match p.filter {
        0 => FilterPolicyEntry::None,
        2 => FilterPolicyEntry::Bloom(BloomConstructionPolicy::FalsePositiveRate(0.01)),
        _ => FilterPolicyEntry::Bloom(BloomConstructionPolicy::BitsPerKey(10.0)),
    };
    let mut cfg = Config::new(path, seq.clone(), vis.clone())
        .use_cache(shared.cache.clone())
        .use_descriptor_table(shared.fd.clone())
        .data_block_size_policy(BlockSizePolicy::all(p.block_size))
        .data_block_restart_interval_policy(RestartIntervalPolicy::all(p.restart))
        .data_block_hash_ratio_policy(HashRatioPolicy::all(p.hash_ratio))
        .index_block_partitioning_policy(PinningPolicy::all(p.partition_index))
        .filter_block_partitioning_policy(PinningPolicy::all(p.partition_filter))
        .index_block_pinning_policy(PinningPolicy::all(p.pin_index))
        .filter_block_pinning_policy(PinningPolicy::all(p.pin_filter))
        .filter_policy(FilterPolicy::all(filter))
        .expect_point_read_hits(p.filter == 3)
        .data_block_compression_policy(CompressionPolicy::all(comp))
        .index_block_compression_policy(CompressionPolicy::all(comp));
    if let Some(b) = blob {
        cfg = cfg.with_kv_separation(Some(
            KvSeparationOptions::default()
                .separation_threshold(b.threshold)
                .file_target_size(b.file_target)
                .staleness_threshold(b.staleness)
                .age_cutoff(b.age_cutoff)
                .compression(if b.lz4 {
                    CompressionType::Lz4
                } else {
                    CompressionType::None
                }),
        ));
    }
    cfg
}
